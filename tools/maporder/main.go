// maporder rewrites, in a scratch copy of projecteru2/core, every `range` over a
// map (and x/exp maps.Keys / maps.Values) into an iteration whose order is decided
// by the simulator (package verifrt, generated into the copy). Any iteration order
// is a legal Go execution, so behaviours of the rewritten program are a subset of
// the shipped program's.
package main

import (
	"bytes"
	"encoding/json"
	"fmt"
	"go/ast"
	"go/format"
	"go/token"
	"go/types"
	"os"
	"path/filepath"
	"sort"
	"strings"

	"golang.org/x/tools/go/ast/astutil"
	"golang.org/x/tools/go/packages"
)

const rtPath = "github.com/projecteru2/core/verifrt"

type report struct {
	Rewritten   int      `json:"rewritten"`
	Ticks       int      `json:"ticks_inserted"`
	Yields      int      `json:"yield_points_inserted"`
	RollbackMarks int    `json:"rollback_marks"`
	Files       int      `json:"files"`
	Unrewritten []string `json:"unrewritten_map_ranges"`
}

func main() {
	if len(os.Args) < 2 {
		fmt.Fprintln(os.Stderr, "usage: maporder <repo-copy-dir> [report.json]")
		os.Exit(2)
	}
	dir, _ := filepath.Abs(os.Args[1])
	cfg := &packages.Config{
		Mode:       packages.NeedName | packages.NeedFiles | packages.NeedSyntax | packages.NeedTypes | packages.NeedTypesInfo | packages.NeedImports | packages.NeedDeps | packages.NeedCompiledGoFiles,
		Dir:        dir,
		Tests:      false,
		BuildFlags: []string{"-tags=verif"},
	}
	pkgs, err := packages.Load(cfg, "./...")
	if err != nil {
		fmt.Fprintln(os.Stderr, "load:", err)
		os.Exit(2)
	}
	rep := &report{}
	for _, p := range pkgs {
		if len(p.Errors) > 0 {
			for _, e := range p.Errors {
				fmt.Fprintln(os.Stderr, "pkg error:", p.PkgPath, e)
			}
			os.Exit(2)
		}
		if skipPkg(p.PkgPath) {
			continue
		}
		for i, f := range p.Syntax {
			name := p.CompiledGoFiles[i]
			if !strings.HasPrefix(name, dir) || strings.HasSuffix(name, "_test.go") {
				continue
			}
			if isGenerated(f) {
				continue
			}
			ticks := 0
			if strings.HasSuffix(p.PkgPath, "/core/utils") && strings.HasSuffix(name, "/utils/transaction.go") {
				m := markRollback(f)
				rep.RollbackMarks += m
				ticks += m
			}
			if strings.Contains(p.PkgPath, "resource/plugins/cpumem") {
				ticks = insertTicks(f)
				rep.Ticks += ticks
			}
			if strings.HasSuffix(p.PkgPath, "cluster/calcium") {
				// yield points inside the goroutine bodies of calcium (function literals): after
				// every call statement outside a mutex region. Only the race-detector check
				// (C34) installs a hook for them; they let two goroutines of one operation stop
				// between "returned from the pool / the store" and "write the shared variable",
				// which the pool's own lock would otherwise always order.
				y := insertCallYields(p, f)
				// and at the start of every function literal handed to a worker pool or started
				// as a goroutine: when a task starts relative to its submitter is the runtime's
				// choice (with one processor the pool hands over synchronously, which hides every
				// "the loop went on before the task looked at its variables" problem)
				y += insertTaskStarts(f)
				ticks += y
				rep.Yields += y
			}
			if strings.HasSuffix(p.PkgPath, "discovery/helium") {
				// yield points: the service-discovery hub has no call into an external party
				// between its channel operations, so the simulator could never order a
				// subscriber against the dispatch loop; a tick at every loop head and function
				// entry lets the scheduler decide
				ticks = insertTicks(f) + insertFuncTicks(f)
				rep.Yields += ticks
			}
			n := rewriteFile(p, f, name, rep) + ticks
			if ticks > 0 {
				astutil.AddImport(p.Fset, f, rtPath)
			}
			if n == 0 {
				continue
			}
			var buf bytes.Buffer
			if err := format.Node(&buf, p.Fset, f); err != nil {
				fmt.Fprintln(os.Stderr, "format:", name, err)
				os.Exit(2)
			}
			if err := os.WriteFile(name, buf.Bytes(), 0o644); err != nil {
				fmt.Fprintln(os.Stderr, err)
				os.Exit(2)
			}
			rep.Rewritten += n
			rep.Files++
		}
	}
	if rep.RollbackMarks != 1 {
		fmt.Fprintf(os.Stderr, "maporder: expected exactly one rollback call in utils.Txn, found %d: cannot mark compensating steps\n", rep.RollbackMarks)
		os.Exit(2)
	}
	sort.Strings(rep.Unrewritten)
	out, _ := json.MarshalIndent(rep, "", " ")
	if len(os.Args) > 2 {
		_ = os.WriteFile(os.Args[2], out, 0o644)
	}
	fmt.Println(string(out))
}

// markRollback wraps the context handed to the rollback step of utils.Txn:
// rollback(ctx, x) becomes rollback(verifrt.MarkRollback(ctx), x), so that the simulator
// can tell compensating steps (never failed by injection) from primary steps.
func markRollback(f *ast.File) int {
	n := 0
	for _, d := range f.Decls {
		fd, ok := d.(*ast.FuncDecl)
		if !ok || fd.Name.Name != "Txn" || fd.Body == nil {
			continue
		}
		ast.Inspect(fd.Body, func(nd ast.Node) bool {
			ce, ok := nd.(*ast.CallExpr)
			if !ok {
				return true
			}
			if id, ok := ce.Fun.(*ast.Ident); ok && id.Name == "rollback" && len(ce.Args) == 2 {
				ce.Args[0] = &ast.CallExpr{Fun: sel("verifrt", "MarkRollback"), Args: []ast.Expr{ce.Args[0]}}
				n++
			}
			return true
		})
	}
	return n
}

// insertTicks prepends verifrt.DoTick() to every loop body (bounded-step liveness of pure CPU loops).
func insertTicks(f *ast.File) int {
	n := 0
	tick := func() ast.Stmt {
		return &ast.ExprStmt{X: &ast.CallExpr{Fun: sel("verifrt", "DoTick")}}
	}
	ast.Inspect(f, func(nd ast.Node) bool {
		switch l := nd.(type) {
		case *ast.ForStmt:
			l.Body.List = append([]ast.Stmt{tick()}, l.Body.List...)
			n++
		case *ast.RangeStmt:
			l.Body.List = append([]ast.Stmt{tick()}, l.Body.List...)
			n++
		}
		return true
	})
	return n
}

// insertCallYields appends verifrt.DoTick() after call statements inside function literals.
func insertCallYields(p *packages.Package, f *ast.File) int {
	n := 0
	isBuiltin := func(fun ast.Expr) bool {
		if idn, ok := fun.(*ast.Ident); ok {
			if _, ok := p.TypesInfo.Uses[idn].(*types.Builtin); ok {
				return true
			}
			if tv, ok := p.TypesInfo.Types[fun]; ok && tv.IsType() {
				return true // conversion
			}
		}
		return false
	}
	methodName := func(c *ast.CallExpr) string {
		if se, ok := c.Fun.(*ast.SelectorExpr); ok {
			return se.Sel.Name
		}
		return ""
	}
	callOf := func(st ast.Stmt) *ast.CallExpr {
		switch s := st.(type) {
		case *ast.ExprStmt:
			if c, ok := s.X.(*ast.CallExpr); ok {
				return c
			}
		case *ast.AssignStmt:
			for _, r := range s.Rhs {
				if c, ok := r.(*ast.CallExpr); ok {
					return c
				}
			}
		}
		return nil
	}
	var doBlock func(b *ast.BlockStmt, inLock bool)
	var doStmt func(st ast.Stmt, inLock bool)
	doStmt = func(st ast.Stmt, inLock bool) {
		switch s := st.(type) {
		case *ast.BlockStmt:
			doBlock(s, inLock)
		case *ast.IfStmt:
			doBlock(s.Body, inLock)
			if s.Else != nil {
				doStmt(s.Else, inLock)
			}
			// "if x, err := call(); err != nil { <write> }": a yield before the body
			if s.Init != nil && !inLock {
				if c := callOf(s.Init); c != nil && !isBuiltin(c.Fun) {
					s.Body.List = append([]ast.Stmt{&ast.ExprStmt{X: &ast.CallExpr{Fun: sel("verifrt", "DoTick")}}}, s.Body.List...)
					n++
				}
			}
		case *ast.ForStmt:
			doBlock(s.Body, inLock)
		case *ast.RangeStmt:
			doBlock(s.Body, inLock)
		case *ast.SwitchStmt:
			for _, cc := range s.Body.List {
				if c, ok := cc.(*ast.CaseClause); ok {
					b := &ast.BlockStmt{List: c.Body}
					doBlock(b, inLock)
					c.Body = b.List
				}
			}
		}
	}
	doBlock = func(b *ast.BlockStmt, inLock bool) {
		if b == nil {
			return
		}
		var out []ast.Stmt
		for _, st := range b.List {
			doStmt(st, inLock)
			out = append(out, st)
			if d, ok := st.(*ast.DeferStmt); ok {
				if m := methodName(d.Call); m == "Unlock" || m == "RUnlock" {
					inLock = true // held until the function returns
				}
				continue
			}
			c := callOf(st)
			if c == nil || isBuiltin(c.Fun) {
				continue
			}
			switch methodName(c) {
			case "Lock", "RLock":
				inLock = true
				continue
			case "Unlock", "RUnlock":
				inLock = false
			}
			if inLock {
				continue
			}
			out = append(out, &ast.ExprStmt{X: &ast.CallExpr{Fun: sel("verifrt", "DoTick")}})
			n++
		}
		b.List = out
	}
	ast.Inspect(f, func(nd ast.Node) bool {
		if fl, ok := nd.(*ast.FuncLit); ok {
			doBlock(fl.Body, false) // (doBlock does not descend into nested literals; Inspect does)
		}
		return true
	})
	return n
}

// insertTaskStarts prepends verifrt.DoStart() to function literals passed to Invoke/Submit or started with go.
func insertTaskStarts(f *ast.File) int {
	n := 0
	mark := func(fl *ast.FuncLit) {
		fl.Body.List = append([]ast.Stmt{&ast.ExprStmt{X: &ast.CallExpr{Fun: sel("verifrt", "DoStart")}}}, fl.Body.List...)
		n++
	}
	ast.Inspect(f, func(nd ast.Node) bool {
		switch x := nd.(type) {
		case *ast.GoStmt:
			if fl, ok := x.Call.Fun.(*ast.FuncLit); ok {
				mark(fl)
			}
		case *ast.CallExpr:
			if se, ok := x.Fun.(*ast.SelectorExpr); ok && (se.Sel.Name == "Invoke" || se.Sel.Name == "Submit") && len(x.Args) == 1 {
				if fl, ok := x.Args[0].(*ast.FuncLit); ok {
					mark(fl)
				}
			}
		}
		return true
	})
	return n
}

// insertFuncTicks prepends verifrt.DoTick() to every method body (yield points).
func insertFuncTicks(f *ast.File) int {
	n := 0
	for _, d := range f.Decls {
		fd, ok := d.(*ast.FuncDecl)
		if !ok || fd.Body == nil || fd.Recv == nil {
			continue
		}
		fd.Body.List = append([]ast.Stmt{&ast.ExprStmt{X: &ast.CallExpr{Fun: sel("verifrt", "DoTick")}}}, fd.Body.List...)
		n++
	}
	return n
}

func skipPkg(path string) bool {
	for _, s := range []string{"/mocks", "/rpc/gen", "/3rdmocks", "/verifrt"} {
		if strings.Contains(path, s) {
			return true
		}
	}
	return false
}

func isGenerated(f *ast.File) bool {
	for _, cg := range f.Comments {
		if cg.Pos() > f.Package {
			break
		}
		if strings.Contains(cg.Text(), "DO NOT EDIT") {
			return true
		}
	}
	return false
}

func isMap(t types.Type) bool {
	if t == nil {
		return false
	}
	_, ok := t.Underlying().(*types.Map)
	return ok
}

func id(s string) *ast.Ident { return ast.NewIdent(s) }

func sel(x, s string) ast.Expr { return &ast.SelectorExpr{X: id(x), Sel: id(s)} }

func rewriteFile(p *packages.Package, f *ast.File, name string, rep *report) int {
	n := 0
	labeled := map[ast.Stmt]bool{}
	ast.Inspect(f, func(nd ast.Node) bool {
		if l, ok := nd.(*ast.LabeledStmt); ok {
			labeled[l.Stmt] = true
		}
		return true
	})
	depth := 0
	astutil.Apply(f, func(c *astutil.Cursor) bool {
		switch nd := c.Node().(type) {
		case *ast.CallExpr:
			// maps.Keys(m) / maps.Values(m) from golang.org/x/exp/maps or std maps
			if se, ok := nd.Fun.(*ast.SelectorExpr); ok {
				if x, ok := se.X.(*ast.Ident); ok {
					if pn, ok := p.TypesInfo.Uses[x].(*types.PkgName); ok && pn.Imported().Path() == "golang.org/x/exp/maps" && (se.Sel.Name == "Keys" || se.Sel.Name == "Values") {
						nd.Fun = sel("verifrt", se.Sel.Name)
						n++
					}
				}
			}
		}
		return true
	}, func(c *astutil.Cursor) bool {
		rs, ok := c.Node().(*ast.RangeStmt)
		if !ok {
			return true
		}
		tv, ok := p.TypesInfo.Types[rs.X]
		if !ok || !isMap(tv.Type) {
			if ok {
				if _, isTP := tv.Type.(*types.TypeParam); isTP {
					rep.Unrewritten = append(rep.Unrewritten, fmt.Sprintf("%s: range over type parameter", p.Fset.Position(rs.Pos())))
				}
			}
			return true
		}
		pos := p.Fset.Position(rs.Pos())
		if labeled[rs] {
			rep.Unrewritten = append(rep.Unrewritten, fmt.Sprintf("%s: labeled range", pos))
			return true
		}
		if _, isList := c.Parent().(*ast.BlockStmt); !isList {
			if _, ok := c.Parent().(*ast.CaseClause); !ok {
				if _, ok := c.Parent().(*ast.CommClause); !ok {
					rep.Unrewritten = append(rep.Unrewritten, fmt.Sprintf("%s: not in a statement list", pos))
					return true
				}
			}
		}
		depth++
		sfx := fmt.Sprintf("%d", depth)
		mName, ksName, iName, okName := "verifM"+sfx, "verifKs"+sfx, "verifI"+sfx, "verifOK"+sfx
		keyBlank := rs.Key == nil || isBlank(rs.Key)
		valBlank := rs.Value == nil || isBlank(rs.Value)
		var pre []ast.Stmt
		pre = append(pre, &ast.AssignStmt{Lhs: []ast.Expr{id(mName)}, Tok: token.DEFINE, Rhs: []ast.Expr{rs.X}})
		pre = append(pre, &ast.AssignStmt{Lhs: []ast.Expr{id(ksName)}, Tok: token.DEFINE, Rhs: []ast.Expr{&ast.CallExpr{Fun: sel("verifrt", "Keys"), Args: []ast.Expr{id(mName)}}}})
		var keyExpr, valExpr ast.Expr
		define := rs.Tok == token.DEFINE
		if keyBlank {
			keyExpr = id("verifK" + sfx)
		} else {
			keyExpr = rs.Key
		}
		if !valBlank {
			valExpr = rs.Value
		}
		// declare loop variables once, outside the loop (go 1.20 per-loop semantics)
		if define || keyBlank {
			lhs := []ast.Expr{}
			if define && !keyBlank {
				lhs = append(lhs, keyExpr)
			} else if keyBlank {
				lhs = append(lhs, keyExpr)
			} else {
				lhs = append(lhs, id("_"))
			}
			if define && !valBlank {
				lhs = append(lhs, valExpr)
			} else {
				lhs = append(lhs, id("_"))
			}
			pre = append(pre, &ast.AssignStmt{Lhs: lhs, Tok: token.DEFINE, Rhs: []ast.Expr{&ast.CallExpr{Fun: sel("verifrt", "ZeroKV"), Args: []ast.Expr{id(mName)}}}})
		}
		var body []ast.Stmt
		idx := &ast.IndexExpr{X: id(ksName), Index: id(iName)}
		body = append(body, &ast.AssignStmt{Lhs: []ast.Expr{keyExpr}, Tok: token.ASSIGN, Rhs: []ast.Expr{idx}})
		lookup := &ast.IndexExpr{X: id(mName), Index: keyExpr}
		if valBlank {
			body = append(body, &ast.IfStmt{
				Init: &ast.AssignStmt{Lhs: []ast.Expr{id("_"), id(okName)}, Tok: token.DEFINE, Rhs: []ast.Expr{lookup}},
				Cond: &ast.UnaryExpr{Op: token.NOT, X: id(okName)},
				Body: &ast.BlockStmt{List: []ast.Stmt{&ast.BranchStmt{Tok: token.CONTINUE}}},
			})
		} else {
			body = append(body, &ast.DeclStmt{Decl: &ast.GenDecl{Tok: token.VAR, Specs: []ast.Spec{&ast.ValueSpec{Names: []*ast.Ident{id(okName)}, Type: id("bool")}}}})
			body = append(body, &ast.IfStmt{
				Init: &ast.AssignStmt{Lhs: []ast.Expr{valExpr, id(okName)}, Tok: token.ASSIGN, Rhs: []ast.Expr{lookup}},
				Cond: &ast.UnaryExpr{Op: token.NOT, X: id(okName)},
				Body: &ast.BlockStmt{List: []ast.Stmt{&ast.BranchStmt{Tok: token.CONTINUE}}},
			})
		}
		body = append(body, rs.Body.List...)
		loop := &ast.RangeStmt{Key: id(iName), Tok: token.DEFINE, X: id(ksName), Body: &ast.BlockStmt{List: body}}
		blk := &ast.BlockStmt{List: append(pre, loop)}
		c.Replace(blk)
		n++
		return true
	})
	if n > 0 {
		astutil.AddImport(p.Fset, f, rtPath)
		if !astutil.UsesImport(f, "golang.org/x/exp/maps") {
			astutil.DeleteImport(p.Fset, f, "golang.org/x/exp/maps")
		}
	}
	return n
}

func isBlank(e ast.Expr) bool {
	i, ok := e.(*ast.Ident)
	return ok && i.Name == "_"
}
