module verif/sim

go 1.26.8

require github.com/projecteru2/core v0.0.0

replace github.com/projecteru2/core => /var/tmp/verif-build/current/repo
