// Package verifrt is copied into the scratch copy of projecteru2/core (never into
// /repo) as github.com/projecteru2/core/verifrt. The maporder tool rewrites map
// iteration to go through Keys, and the tick tool inserts Tick calls into loops of
// the CPU planner. With no hooks installed everything here is a plain, sorted,
// deterministic iteration.
package verifrt

import (
	"context"
	"fmt"
	"sort"
)

type rollbackKey struct{}

// MarkRollback tags the context of a utils.Txn rollback step (inserted by the rewrite
// tool into the scratch copy): everything done under it is a compensating step.
func MarkRollback(ctx context.Context) context.Context {
	return context.WithValue(ctx, rollbackKey{}, true)
}

// IsRollback reports whether ctx descends from a rollback step.
func IsRollback(ctx context.Context) bool {
	v, _ := ctx.Value(rollbackKey{}).(bool)
	return v
}

// Permute, when set by the simulator, returns a permutation of 0..n-1 drawn from
// the run's map-order PRNG stream. nil means "sorted order".
var Permute func(n int) []int

// Tick, when set, is called at the top of every loop iteration of instrumented
// packages (bounded-step liveness for pure CPU loops).
var Tick func()

// DoTick is what instrumented loops call.
func DoTick() {
	if Tick != nil {
		Tick()
	}
}

// Start, when set, is called at the start of every function literal handed to a worker
// pool or started as a goroutine in instrumented packages: the simulator decides when a
// task starts relative to its submitter.
var Start func()

// DoStart is what instrumented task bodies call first.
func DoStart() {
	if Start != nil {
		Start()
	} else if Tick != nil {
		Tick()
	}
}

func less(a, b any) bool {
	switch x := a.(type) {
	case string:
		return x < b.(string)
	case int:
		return x < b.(int)
	case int64:
		return x < b.(int64)
	case int32:
		return x < b.(int32)
	case uint32:
		return x < b.(uint32)
	case uint64:
		return x < b.(uint64)
	case uint:
		return x < b.(uint)
	case float64:
		return x < b.(float64)
	case bool:
		return !x && b.(bool)
	case interface{ Name() string }:
		if y, ok := b.(interface{ Name() string }); ok {
			return x.Name() < y.Name()
		}
	}
	return fmt.Sprintf("%v", a) < fmt.Sprintf("%v", b)
}

// Keys returns the keys of m sorted, then permuted by the simulator.
func Keys[M ~map[K]V, K comparable, V any](m M) []K {
	ks := make([]K, 0, len(m))
	for k := range m {
		ks = append(ks, k)
	}
	sort.Slice(ks, func(i, j int) bool { return less(ks[i], ks[j]) })
	if Permute != nil && len(ks) > 1 {
		p := Permute(len(ks))
		out := make([]K, len(ks))
		for i, j := range p {
			out[i] = ks[j]
		}
		return out
	}
	return ks
}

// Values returns the values of m in Keys order.
func Values[M ~map[K]V, K comparable, V any](m M) []V {
	ks := Keys(m)
	vs := make([]V, 0, len(ks))
	for _, k := range ks {
		vs = append(vs, m[k])
	}
	return vs
}

// ZeroKV returns zero values of the key and element types of m.
func ZeroKV[M ~map[K]V, K comparable, V any](_ M) (k K, v V) { return }
