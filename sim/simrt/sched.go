// Package simrt is the deterministic-simulation runtime: one seeded PRNG decides
// which parked goroutine proceeds at every seam, which seam call fails, where the
// process crashes and how far virtual time advances. It runs inside a
// testing/synctest bubble (fake clock, quiescence detection).
package simrt

import (
	"bytes"
	"errors"
	"fmt"
	"hash/fnv"
	"math/rand/v2"
	"runtime"
	"sort"
	"strconv"
	"sync"
	"testing/synctest"
	"time"
)

// SettleClass is the seam class of Sim.Settle.
const SettleClass = "settle"

// ErrInjected is the root of every injected failure.
var ErrInjected = errors.New("sim: injected fault")

// Instance is one simulated OS process (one core instance). After Crash every seam
// call made on its behalf blocks forever: nothing of a dead process reaches the
// outside world any more.
type Instance struct {
	ID   int
	Dead bool
}

// Plan is the part of a run that a replay file pins.
type Plan struct {
	Policy   string `json:"policy"`             // fifo | random | sticky | pct | batch
	Schedule []int  `json:"schedule,omitempty"` // explicit choices (indices into the arrival-ordered parked list); exhausted => policy
	// ErrAt lists indices of *faultable* seam calls (counted in release order) that fail with no effect.
	ErrAt []int `json:"err_at,omitempty"`
	// CrashAt: crash instance CrashInst when the faultable-call counter reaches this value (before releasing that call). -1 = never.
	CrashAt   int `json:"crash_at"`
	CrashInst int `json:"crash_inst,omitempty"`
	// StallAt: at these scheduler steps virtual time advances by StallFor while everything stays parked.
	StallAt  []int         `json:"stall_at,omitempty"`
	StallFor time.Duration `json:"stall_for,omitempty"`
	MapSeed  uint64        `json:"map_seed"` // 0 => sorted map iteration
	PCTDepth int           `json:"pct_depth,omitempty"`
	MaxSteps int           `json:"max_steps,omitempty"`
}

type park struct {
	seq     uint64
	gid     uint64
	epoch   int // scheduler step at which the call was first seen (arrival epoch)
	order   int // canonical rank inside its epoch
	tid     int
	class   string
	label   string
	inst    *Instance
	fault   bool // faultable
	release chan error
	frozenT time.Time
}

// TraceEvent is one scheduler decision.
type TraceEvent struct {
	Step  int    `json:"step"`
	T     int64  `json:"t_ms"`
	Tid   int    `json:"tid"`
	Class string `json:"class"`
	Label string `json:"label"`
	What  string `json:"what"` // run | err | crash | stall | idle
	Idx   int    `json:"idx"`
	N     int    `json:"n"`
	FIdx  int    `json:"fidx"` // faultable-call index, -1 if not faultable
}

// Stats counts what actually happened in a run.
type Stats struct {
	Steps      int            `json:"steps"`
	SeamCalls  map[string]int `json:"seam_calls"`
	Faultable  int            `json:"faultable_calls"`
	ErrFired   int            `json:"err_fired"`
	CrashFired int            `json:"crash_fired"`
	StallFired int            `json:"stall_fired"`
	IdleJumps  int            `json:"idle_jumps"`
	MaxParked  int            `json:"max_parked"`
	Choices    int            `json:"choices_with_alternatives"`
	Batched    int            `json:"released_in_a_batch,omitempty"`
	VirtualMS  int64          `json:"virtual_ms"`
}

// Sim is one simulated run.
type Sim struct {
	Plan  Plan
	Rng   *rand.Rand // scheduler choices
	Gen   *rand.Rand // workload generation (separate stream so shrinking the schedule does not change the workload)
	mapR  *rand.Rand
	Start time.Time

	mu       sync.Mutex
	parked   []*park
	seq      uint64
	arrive   chan struct{}
	schedGID uint64
	tids     map[uint64]int
	active   bool

	released map[int]int // tid -> number of seam calls released so far
	paused   map[string]time.Time
	tasks   int // live client tasks
	fidx    int // faultable calls released so far
	step    int
	schedI  int
	lastTid int
	prio    map[int]float64
	pctCP   map[int]bool

	Trace     []TraceEvent
	KeepTrace bool
	hash      uint64
	Stats     Stats
	Chosen    []int // the full sequence of choices actually taken (for the replay file)

	// OnStep runs at every quiescent point before the next decision (everything else is blocked).
	OnStep func(s *Sim)
	// OnRelease is told about each released seam call.
	OnRelease func(ev TraceEvent)
	// FaultFilter, when set, can exempt seam calls from fault injection (and from the
	// faultable-call numbering), e.g. calls outside the scope a property quantifies over.
	FaultFilter func(class, label string) bool
	// Abort, when set non-nil by an oracle, stops the run.
	Abort error

	Instances []*Instance
	Stuck     bool
	StuckWhy  string
	faultOff  bool
}

// New creates a run from a seed and plan. Must be called inside the bubble.
func New(seed uint64, plan Plan) *Sim {
	s := &Sim{
		Plan:    plan,
		Rng:     rand.New(rand.NewPCG(seed, 0x9e3779b97f4a7c15)),
		Gen:     rand.New(rand.NewPCG(seed, 0x51ed270b1f2d3a49)),
		Start:   time.Now(),
		arrive:  make(chan struct{}, 1),
		tids:    map[uint64]int{},
		released: map[int]int{},
		paused:   map[string]time.Time{},
		prio:    map[int]float64{},
		pctCP:   map[int]bool{},
		lastTid: -1,
	}
	if plan.MapSeed != 0 {
		s.mapR = rand.New(rand.NewPCG(plan.MapSeed, 0x2545f4914f6cdd1d))
	}
	if s.Plan.MaxSteps == 0 {
		s.Plan.MaxSteps = 20000
	}
	s.Stats.SeamCalls = map[string]int{}
	s.hash = 1469598103934665603
	s.schedGID = Goid()
	s.active = true
	if plan.Policy == "pct" {
		d := plan.PCTDepth
		if d == 0 {
			d = 3
		}
		for i := 0; i < d; i++ {
			s.pctCP[int(s.Rng.Uint64()%400)] = true
		}
	}
	return s
}

// Permute implements verifrt.Permute for this run.
func (s *Sim) Permute(n int) []int {
	if s.mapR == nil {
		p := make([]int, n)
		for i := range p {
			p[i] = i
		}
		return p
	}
	return s.mapR.Perm(n)
}

// NewInstance registers a simulated process.
func (s *Sim) NewInstance() *Instance {
	in := &Instance{ID: len(s.Instances)}
	s.Instances = append(s.Instances, in)
	return in
}

// Goid returns the current goroutine id.
func Goid() uint64 {
	var buf [64]byte
	b := buf[:runtime.Stack(buf[:], false)]
	b = bytes.TrimPrefix(b, []byte("goroutine "))
	i := bytes.IndexByte(b, ' ')
	n, _ := strconv.ParseUint(string(b[:i]), 10, 64)
	return n
}

// Now is virtual time since the start of the run.
func (s *Sim) Now() time.Duration { return time.Since(s.Start) }

// Go starts a client task; the run is not finished while client tasks are live.
func (s *Sim) Go(f func()) {
	s.mu.Lock()
	s.tasks++
	s.mu.Unlock()
	go func() {
		defer func() {
			s.mu.Lock()
			s.tasks--
			s.mu.Unlock()
			s.signal()
		}()
		f()
	}()
}

func (s *Sim) signal() {
	select {
	case s.arrive <- struct{}{}:
	default:
	}
}

// SetFaultsEnabled lets a harness switch fault injection off for setup and
// compensation phases (the plan's counters do not advance while off).
func (s *Sim) SetFaultsEnabled(on bool) {
	s.mu.Lock()
	s.faultOff = !on
	s.mu.Unlock()
}

// FaultIndex returns the number of faultable calls released so far.
func (s *Sim) FaultIndex() int {
	s.mu.Lock()
	defer s.mu.Unlock()
	return s.fidx
}

// Seam parks the calling goroutine until the scheduler releases it. It returns a
// non-nil error when the scheduler decided that this call fails (the caller must
// then return the error without performing the effect). Calls from the scheduler
// goroutine itself (oracles) pass straight through.
func (s *Sim) Seam(inst *Instance, class, label string, faultable bool) error {
	if s == nil {
		return nil
	}
	gid := Goid()
	s.mu.Lock()
	if !s.active || gid == s.schedGID {
		s.mu.Unlock()
		return nil
	}
	// task ids are handed out by the scheduler at the next quiescent point, in a
	// canonical order: which of several goroutines woken at the same virtual instant
	// reaches its seam first is up to the Go runtime and must not matter
	tid, ok := s.tids[gid]
	if !ok {
		tid = -1
	}
	s.seq++
	if faultable && s.FaultFilter != nil && !s.FaultFilter(class, label) {
		faultable = false
	}
	p := &park{seq: s.seq, tid: tid, gid: gid, class: class, label: label, inst: inst, fault: faultable && !s.faultOff, release: make(chan error)}
	if until, ok := s.paused[class]; ok && time.Now().Before(until) {
		p.frozenT = until
	}
	s.parked = append(s.parked, p)
	if len(s.parked) > s.Stats.MaxParked {
		s.Stats.MaxParked = len(s.parked)
	}
	s.mu.Unlock()
	s.signal()
	return <-p.release
}

// ReleasedOfCaller returns the calling goroutine's task id and how many of its seam
// calls have been released so far.
func (s *Sim) ReleasedOfCaller() (tid, n int) {
	gid := Goid()
	s.mu.Lock()
	defer s.mu.Unlock()
	tid, ok := s.tids[gid]
	if !ok {
		return -1, 0
	}
	return tid, s.released[tid]
}

// ReleasedOf returns how many seam calls of task tid have been released so far.
func (s *Sim) ReleasedOf(tid int) int {
	s.mu.Lock()
	defer s.mu.Unlock()
	return s.released[tid]
}

// Settle blocks the caller until every other goroutine is blocked and nothing else
// is parked at a seam, i.e. background work started by earlier operations has run dry
// (goroutines sleeping on timers do not count).
func (s *Sim) Settle() {
	_ = s.Seam(nil, SettleClass, "settle", false)
}

// Stop deactivates the seams: every later Seam call passes through (used for teardown).
func (s *Sim) Stop() {
	s.mu.Lock()
	s.active = false
	ps := s.parked
	s.parked = nil
	s.mu.Unlock()
	for _, p := range ps {
		if p.inst == nil || !p.inst.Dead {
			close(p.release)
		}
	}
}

func (s *Sim) record(ev TraceEvent) {
	h := fnv.New64a()
	fmt.Fprintf(h, "%d|%d|%d|%s|%s|%s|%d|%d|%d", ev.Step, ev.T, ev.Tid, ev.Class, ev.Label, ev.What, ev.Idx, ev.N, ev.FIdx)
	s.hash = s.hash*1099511628211 ^ h.Sum64()
	if s.KeepTrace {
		s.Trace = append(s.Trace, ev)
	}
}

// TraceHash identifies the interleaving of this run.
func (s *Sim) TraceHash() string { return strconv.FormatUint(s.hash, 16) }

func contains(xs []int, x int) bool {
	for _, y := range xs {
		if y == x {
			return true
		}
	}
	return false
}

// Crash marks an instance dead: its parked and future seam calls never return.
func (s *Sim) Crash(inst *Instance) {
	s.mu.Lock()
	inst.Dead = true
	kept := s.parked[:0]
	for _, p := range s.parked {
		if p.inst != inst {
			kept = append(kept, p)
		}
	}
	s.parked = kept
	s.mu.Unlock()
}

// Run is the scheduler loop. done is evaluated at quiescent points with nothing
// parked; the loop also ends when no client task is left and nothing is parked.
// idleLimit bounds how much virtual time may pass with client tasks outstanding
// and nothing parked (a stuck run).
func (s *Sim) Run(done func() bool, idleLimit time.Duration) {
	var idleSince time.Duration = -1
	for {
		synctest.Wait()
		if s.OnStep != nil {
			s.OnStep(s)
		}
		if s.Abort != nil {
			return
		}
		s.mu.Lock()
		// drop parked calls of dead instances (they block forever)
		kept := s.parked[:0]
		for _, p := range s.parked {
			if p.inst != nil && p.inst.Dead {
				continue
			}
			kept = append(kept, p)
		}
		s.parked = kept
		now := time.Now()
		var cand []*park
		var nextThaw time.Time
		for _, p := range s.parked {
			if !p.frozenT.IsZero() && p.frozenT.After(now) {
				if nextThaw.IsZero() || p.frozenT.Before(nextThaw) {
					nextThaw = p.frozenT
				}
				continue
			}
			cand = append(cand, p)
		}
		tasks := s.tasks
		// every call that arrived since the last decision belongs to one arrival epoch;
		// inside an epoch the order is canonical (class, label), not the order of arrival
		var fresh []*park
		for _, p := range s.parked {
			if p.epoch == 0 {
				p.epoch = s.step + 1
				fresh = append(fresh, p)
			}
		}
		sort.SliceStable(fresh, func(i, j int) bool {
			if fresh[i].class != fresh[j].class {
				return fresh[i].class < fresh[j].class
			}
			if fresh[i].label != fresh[j].label {
				return fresh[i].label < fresh[j].label
			}
			// known tasks before new ones, by task id; new ones in arrival order (a true tie)
			ti, tj := fresh[i].tid, fresh[j].tid
			if (ti >= 0) != (tj >= 0) {
				return ti >= 0
			}
			if ti != tj {
				return ti < tj
			}
			return fresh[i].seq < fresh[j].seq
		})
		for k, p := range fresh {
			p.order = k
			if p.tid < 0 {
				if t, ok := s.tids[p.gid]; ok {
					p.tid = t
				} else {
					p.tid = len(s.tids)
					s.tids[p.gid] = p.tid
				}
			}
		}
		s.mu.Unlock()
		sort.Slice(cand, func(i, j int) bool {
			if cand[i].epoch != cand[j].epoch {
				return cand[i].epoch < cand[j].epoch
			}
			return cand[i].order < cand[j].order
		})
		// "settle" parkers (a client waiting for background work to finish) only run
		// when nothing else can: drop them while other candidates exist
		{
			other := cand[:0:0]
			for _, p := range cand {
				if p.class != SettleClass {
					other = append(other, p)
				}
			}
			if len(other) > 0 {
				cand = other
			}
		}

		if len(cand) == 0 {
			if tasks == 0 && nextThaw.IsZero() && (done == nil || done()) {
				return
			}
			if done != nil && tasks == 0 && nextThaw.IsZero() {
				// background work still expected by the harness: let time pass
			}
			if idleSince < 0 {
				idleSince = s.Now()
			}
			if s.Now()-idleSince > idleLimit {
				s.Stuck = true
				s.StuckWhy = fmt.Sprintf("no seam call for %v of virtual time with %d client task(s) outstanding", idleLimit, tasks)
				return
			}
			q := idleLimit / 8
			if q <= 0 {
				q = time.Second
			}
			if !nextThaw.IsZero() && nextThaw.Sub(now) < q {
				q = nextThaw.Sub(now)
			}
			s.Stats.IdleJumps++
			select {
			case <-s.arrive:
			case <-time.After(q):
			}
			continue
		}
		idleSince = -1
		s.step++
		s.Stats.Steps = s.step
		if s.step > s.Plan.MaxSteps {
			s.Stuck = true
			s.StuckWhy = fmt.Sprintf("step budget %d exceeded", s.Plan.MaxSteps)
			return
		}
		// stall fault: time passes while everything stays parked
		if contains(s.Plan.StallAt, s.step) && s.Plan.StallFor > 0 {
			s.Stats.StallFired++
			s.record(TraceEvent{Step: s.step, T: s.Now().Milliseconds(), Tid: -1, What: "stall", N: len(cand), FIdx: -1})
			time.Sleep(s.Plan.StallFor)
			continue
		}
		idx := s.choose(cand)
		p := cand[idx]
		if len(cand) > 1 {
			s.Stats.Choices++
		}
		s.Chosen = append(s.Chosen, idx)
		ev := TraceEvent{Step: s.step, T: s.Now().Milliseconds(), Tid: p.tid, Class: p.class, Label: p.label, What: "run", Idx: idx, N: len(cand), FIdx: -1}
		var err error
		if p.fault {
			ev.FIdx = s.fidx
			if s.Plan.CrashAt >= 0 && s.fidx == s.Plan.CrashAt && s.Stats.CrashFired == 0 && s.Plan.CrashInst < len(s.Instances) {
				// the process dies before this call reaches the outside world
				s.Stats.CrashFired++
				ev.What = "crash"
				s.record(ev)
				if s.OnRelease != nil {
					s.OnRelease(ev)
				}
				s.Crash(s.Instances[s.Plan.CrashInst])
				s.fidx++
				continue
			}
			if contains(s.Plan.ErrAt, s.fidx) {
				err = fmt.Errorf("%w: %s %s (faultable call #%d)", ErrInjected, p.class, p.label, s.fidx)
				ev.What = "err"
				s.Stats.ErrFired++
			}
			s.fidx++
			s.Stats.Faultable = s.fidx
		}
		s.Stats.SeamCalls[p.class]++
		s.record(ev)
		if s.OnRelease != nil {
			s.OnRelease(ev)
		}
		s.mu.Lock()
		for i, q := range s.parked {
			if q == p {
				s.parked = append(s.parked[:i], s.parked[i+1:]...)
				break
			}
		}
		s.mu.Unlock()
		s.lastTid = p.tid
		s.mu.Lock()
		s.released[p.tid]++
		s.mu.Unlock()
		// batch policy (race build): further parked calls are released in the same step.
		// The tasks of one batch are not ordered by any hand-off through the scheduler,
		// so the race detector sees their segments as concurrent.
		var extra []*park
		if s.Plan.Policy == "batch" && p.class != SettleClass && len(cand) > 1 {
			k := int(s.Rng.Uint64() % 4) // 0..3 more
			rest := make([]*park, 0, len(cand))
			for _, q := range cand {
				if q != p && q.class != SettleClass {
					rest = append(rest, q)
				}
			}
			for ; k > 0 && len(rest) > 0; k-- {
				i := int(s.Rng.Uint64() % uint64(len(rest)))
				extra = append(extra, rest[i])
				rest = append(rest[:i], rest[i+1:]...)
			}
			s.mu.Lock()
			for _, q := range extra {
				for i, r := range s.parked {
					if r == q {
						s.parked = append(s.parked[:i], s.parked[i+1:]...)
						break
					}
				}
				s.released[q.tid]++
				if q.fault {
					s.fidx++
					s.Stats.Faultable = s.fidx
				}
				s.Stats.SeamCalls[q.class]++
				s.Stats.Batched++
			}
			s.mu.Unlock()
			for _, q := range extra {
				s.record(TraceEvent{Step: s.step, T: s.Now().Milliseconds(), Tid: q.tid, Class: q.class, Label: q.label, What: "run+", N: len(cand), FIdx: -1})
			}
		}
		if len(extra) == 0 {
			p.release <- err
			continue
		}
		// The members of a batch run one after the other (each is woken by its own helper
		// at its own virtual nanosecond, and virtual time only advances when everybody is
		// blocked again), so the execution is as repeatable as a serial one; but the
		// helpers were all started before any member ran, so no hand-off orders one
		// member after another for the race detector.
		all := append([]*park{p}, extra...)
		for i, q := range all {
			var e error
			if i == 0 {
				e = err
			}
			go func(q *park, d time.Duration, e error) {
				time.Sleep(d)
				q.release <- e
			}(q, time.Duration(i+1), e)
		}
		time.Sleep(time.Duration(len(all) + 1))
	}
}

func (s *Sim) choose(cand []*park) int {
	n := len(cand)
	if s.schedI < len(s.Plan.Schedule) {
		c := s.Plan.Schedule[s.schedI]
		s.schedI++
		if c >= 0 && c < n {
			return c
		}
		return 0
	}
	s.schedI++
	if n == 1 {
		return 0
	}
	switch s.Plan.Policy {
	case "random", "batch":
		return int(s.Rng.Uint64() % uint64(n))
	case "sticky":
		// keep running the task that ran last with probability 7/8
		if s.Rng.Uint64()%8 != 0 {
			for i, p := range cand {
				if p.tid == s.lastTid {
					return i
				}
			}
		}
		return int(s.Rng.Uint64() % uint64(n))
	case "pct":
		if s.pctCP[s.step] && s.lastTid >= 0 {
			s.prio[s.lastTid] = -float64(s.step)
		}
		best, bi := -1e18, 0
		for i, p := range cand {
			pr, ok := s.prio[p.tid]
			if !ok {
				pr = s.Rng.Float64() + 1
				s.prio[p.tid] = pr
			}
			if pr > best {
				best, bi = pr, i
			}
		}
		return bi
	default: // fifo
		return 0
	}
}

// Freeze makes the next seam call of the task that is currently parked with the
// given label prefix ineligible until virtual time d has passed (a paused client).
func (s *Sim) FreezeParked(match func(class, label string) bool, d time.Duration) int {
	s.mu.Lock()
	defer s.mu.Unlock()
	n := 0
	for _, p := range s.parked {
		if match(p.class, p.label) && p.frozenT.IsZero() {
			p.frozenT = time.Now().Add(d)
			n++
		}
	}
	return n
}

// Pause makes every seam call of one class (one simulated client) ineligible for d of
// virtual time: a stalled / partitioned client whose requests do not get through.
func (s *Sim) Pause(class string, d time.Duration) {
	until := time.Now().Add(d)
	s.mu.Lock()
	s.paused[class] = until
	for _, p := range s.parked {
		if p.class == class {
			p.frozenT = until
		}
	}
	s.mu.Unlock()
}

// Finish fills the stats that are known only at the end.
func (s *Sim) Finish() {
	s.Stats.VirtualMS = s.Now().Milliseconds()
}
