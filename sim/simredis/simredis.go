// Package simredis runs alicebob/miniredis inside the simulation bubble and serves the
// real go-redis client over in-memory pipes. Every command batch a client writes is a
// scheduler seam; key TTLs follow the simulated clock.
package simredis

import (
	"context"
	"errors"
	"net"
	"sort"
	"strings"
	"sync"
	"time"

	"github.com/alicebob/miniredis/v2"
	"github.com/go-redis/redis/v8"

	"verif/sim/simrt"
)

// Server is one simulated Redis.
type Server struct {
	M    *miniredis.Miniredis
	Sim  *simrt.Sim
	mu   sync.Mutex
	last time.Time
	// Log of commands per client class (for ownership oracles): "class|CMD key"
	Log []string
	// owner: which client class created each existing string key with SET ... NX
	owner map[string]string
	// Foreign lists EXPIRE / DEL commands issued on a key that somebody else created.
	Foreign []string
}

// New starts a miniredis inside the bubble (its TCP listener is closed at once; clients
// are served over net.Pipe).
func New(sim *simrt.Sim) (*Server, error) {
	m := miniredis.NewMiniRedis()
	if err := m.Start(); err != nil {
		return nil, err
	}
	m.Server().Close() // no real socket inside the bubble
	s := &Server{M: m, Sim: sim, last: time.Now()}
	m.SetTime(time.Now())
	return s, nil
}

// Sync brings miniredis' notion of time (key TTLs) up to the simulated clock.
func (s *Server) Sync() {
	s.mu.Lock()
	defer s.mu.Unlock()
	now := time.Now()
	if d := now.Sub(s.last); d > 0 {
		s.M.FastForward(d)
		s.M.SetTime(now)
		s.last = now
	}
}

type seamConn struct {
	net.Conn
	s     *Server
	inst  *simrt.Instance
	class string
}

// firstCommand extracts a short label ("SET key") from a RESP request.
func firstCommand(b []byte) string {
	parts := strings.Split(string(b), "\r\n")
	var words []string
	for i := 1; i < len(parts) && len(words) < 2; i++ {
		p := parts[i]
		if p == "" || p[0] == '$' || p[0] == '*' {
			continue
		}
		words = append(words, p)
	}
	l := strings.Join(words, " ")
	if len(l) > 70 {
		l = l[:70]
	}
	return l
}

func (c *seamConn) Write(b []byte) (int, error) {
	label := firstCommand(b)
	up := strings.ToUpper(label)
	faultable := !(strings.HasPrefix(up, "HELLO") || strings.HasPrefix(up, "SELECT") || strings.HasPrefix(up, "PING") || strings.HasPrefix(up, "CLIENT"))
	if err := c.s.Sim.Seam(c.inst, c.class, label, faultable); err != nil {
		_ = c.Conn.Close()
		return 0, err
	}
	c.s.Sync()
	c.s.track(c.class, b)
	c.s.mu.Lock()
	c.s.Log = append(c.s.Log, c.class+"|"+label)
	c.s.mu.Unlock()
	return c.Conn.Write(b)
}

// respWords returns the bulk strings of the first command in a RESP request.
func respWords(b []byte) []string {
	var words []string
	for _, p := range strings.Split(string(b), "\r\n") {
		if p == "" || p[0] == '$' || p[0] == '*' {
			continue
		}
		words = append(words, p)
		if len(words) >= 6 {
			break
		}
	}
	return words
}

// track keeps exact ownership of string keys created with SET ... NX: commands are
// executed one at a time (the scheduler releases one writer at a time), so whether the
// key exists at this moment decides whether the SET NX creates it.
func (s *Server) track(class string, b []byte) {
	w := respWords(b)
	if len(w) < 2 {
		return
	}
	cmd, key := strings.ToUpper(w[0]), w[1]
	exists := s.M.Exists(key)
	s.mu.Lock()
	defer s.mu.Unlock()
	if s.owner == nil {
		s.owner = map[string]string{}
	}
	if !exists {
		delete(s.owner, key)
	}
	switch cmd {
	case "SET", "SETNX":
		nx := cmd == "SETNX"
		for _, x := range w[2:] {
			if strings.EqualFold(x, "nx") {
				nx = true
			}
		}
		if nx && !exists {
			s.owner[key] = class
		}
	case "EXPIRE", "PEXPIRE", "DEL":
		if o, ok := s.owner[key]; ok && exists && o != class {
			s.Foreign = append(s.Foreign, class+" issued "+cmd+" on "+key+" which was created by "+o)
		}
		if cmd == "DEL" {
			delete(s.owner, key)
		}
	}
}

// OwnerOf returns the client class whose SET NX created the key that exists now ("" if none).
func (s *Server) OwnerOf(key string) string {
	s.Sync()
	if !s.M.Exists(key) {
		return ""
	}
	s.mu.Lock()
	defer s.mu.Unlock()
	return s.owner[key]
}

// Client returns a real go-redis client for one simulated process.
func (s *Server) Client(inst *simrt.Instance, class string) *redis.Client {
	return redis.NewClient(&redis.Options{
		Addr:       "sim",
		MaxRetries: -1, // an injected failure fails the call
		PoolSize:   64,
		Dialer: func(ctx context.Context, network, addr string) (net.Conn, error) {
			cl, sv := net.Pipe()
			go s.M.Server().ServeConn(sv)
			return &seamConn{Conn: cl, s: s, inst: inst, class: class}, nil
		},
		DialTimeout:  time.Hour,
		ReadTimeout:  -1,
		WriteTimeout: -1,
		PoolTimeout:  time.Hour,
		IdleTimeout:  -1,
	})
}

// Keys lists all keys (after syncing the clock), sorted.
func (s *Server) Keys() []string {
	s.Sync()
	ks := s.M.Keys()
	sort.Strings(ks)
	return ks
}

// Get returns a string key's value.
func (s *Server) Get(k string) (string, bool) {
	s.Sync()
	v, err := s.M.Get(k)
	if err != nil {
		return "", false
	}
	return v, true
}

// Snapshot returns all string keys under a prefix.
func (s *Server) Snapshot(prefix string) map[string]string {
	out := map[string]string{}
	for _, k := range s.Keys() {
		if strings.HasPrefix(k, prefix) {
			if v, err := s.M.Get(k); err == nil {
				out[k] = v
			}
		}
	}
	return out
}

// Del removes a key directly (fault injection / test setup).
func (s *Server) Del(k string) { s.M.Del(k) }

// ErrClosed is returned by writes after an injected failure closed the connection.
var ErrClosed = errors.New("simredis: connection closed")

// Close shuts the server down.
func (s *Server) Close() { s.M.Close() }
