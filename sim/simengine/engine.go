// Package simengine is a stateful simulated node engine (the party behind
// engine.API): containers with created/running/stopped/removed state, copied files,
// log streams, wait results and resource updates. Every call is a scheduler seam.
package simengine

import (
	"bytes"
	"context"
	"fmt"
	"io"
	"sort"
	"sync"
	"time"

	"github.com/projecteru2/core/engine"
	enginetypes "github.com/projecteru2/core/engine/types"
	resourcetypes "github.com/projecteru2/core/resource/types"
	coresource "github.com/projecteru2/core/source"
	coretypes "github.com/projecteru2/core/types"

	"github.com/projecteru2/core/verifrt"

	"verif/sim/simrt"
)

// File is a file copied into a container.
type File struct {
	Content  []byte
	UID, GID int
	Mode     int64
}

// Container is one simulated workload instance.
type Container struct {
	ID       string
	Name     string
	Labels   map[string]string
	Opts     *enginetypes.VirtualizationCreateOptions
	Running  bool
	Started  int
	Stopped  int
	Files    map[string]File
	Resource resourcetypes.Resources // last applied engine params
	Updates  int
	Created  int // global creation sequence
	Tid      int // simulator task that created it
	SeamAt   int // number of released seam calls of that task right after the Create
	// lambda behaviour
	LogLines []string
	ExitCode int64
}

// Behaviour scripts engine outcomes that are not plain "err" faults.
type Behaviour struct {
	// CopyChunk: 0 read everything, 1 fail immediately without reading, 2 fail after reading ChunkReadBytes.
	CopyChunk      int
	ChunkReadBytes int
	LogsErr        bool
	WaitErr        bool
	ExitCode       int64
	LogLines       []string
	InspectUser    string // user reported by inspect ("" = same as created)
	CreateErr      bool   // every container creation on this machine fails
}

// Node is the engine-side state of one simulated machine; it survives crashes of core.
type Node struct {
	mu         sync.Mutex
	Name       string
	NCPU       int
	Mem        int64
	Containers map[string]*Container
	Removed    []string
	seq        int
	Beh        Behaviour
	CreateLog  []string // ids in creation order
	Slow       map[string]time.Duration // operation name -> how long it takes
	Cancelled  []CancelRec
	ImageRemoves int
}

// SetSlow makes one kind of operation take d of virtual time (0 = immediate).
func (n *Node) SetSlow(what string, d time.Duration) {
	n.mu.Lock()
	defer n.mu.Unlock()
	if n.Slow == nil {
		n.Slow = map[string]time.Duration{}
	}
	n.Slow[what] = d
}

// CancelledOps returns the slow operations that ended by context cancellation so far.
func (n *Node) CancelledOps() []CancelRec {
	n.mu.Lock()
	defer n.mu.Unlock()
	return append([]CancelRec{}, n.Cancelled...)
}

// NewNode creates the engine-side state of a machine.
func NewNode(name string, ncpu int, mem int64) *Node {
	return &Node{Name: name, NCPU: ncpu, Mem: mem, Containers: map[string]*Container{}}
}

// Snapshot lists containers as "id running" lines, sorted.
func (n *Node) Snapshot() []string {
	n.mu.Lock()
	defer n.mu.Unlock()
	var out []string
	for id, c := range n.Containers {
		out = append(out, fmt.Sprintf("%s running=%v files=%d", id, c.Running, len(c.Files)))
	}
	sort.Strings(out)
	return out
}

// Get returns a copy of the container record.
func (n *Node) Get(id string) (Container, bool) {
	n.mu.Lock()
	defer n.mu.Unlock()
	c, ok := n.Containers[id]
	if !ok {
		return Container{}, false
	}
	return *c, true
}

// IDs lists container ids sorted.
func (n *Node) IDs() []string {
	n.mu.Lock()
	defer n.mu.Unlock()
	var ids []string
	for id := range n.Containers {
		ids = append(ids, id)
	}
	sort.Strings(ids)
	return ids
}

// Engine is the handle one core instance holds on a Node.
type Engine struct {
	N      *Node
	Sim    *simrt.Sim
	Inst   *simrt.Instance
	Params *enginetypes.Params
}

var _ engine.API = (*Engine)(nil)

func (e *Engine) seam(ctx context.Context, what string) error {
	if err := ctx.Err(); err != nil {
		return err
	}
	if err := e.Sim.Seam(e.Inst, "engine", what+" "+e.N.Name, !verifrt.IsRollback(ctx)); err != nil {
		return err
	}
	// a slow engine operation: it takes Slow[what] of virtual time unless the caller's
	// context ends first (recorded: C19 watches it at the calcium level)
	e.N.mu.Lock()
	d := e.N.Slow[what]
	e.N.mu.Unlock()
	if d > 0 {
		t := time.NewTimer(d)
		defer t.Stop()
		select {
		case <-ctx.Done():
			e.N.mu.Lock()
			e.N.Cancelled = append(e.N.Cancelled, CancelRec{What: what, At: time.Now()})
			e.N.mu.Unlock()
			return ctx.Err()
		case <-t.C:
		}
	}
	return ctx.Err()
}

// CancelRec records a slow operation that ended because its context was cancelled.
type CancelRec struct {
	What string
	At   time.Time
}

func (e *Engine) Info(ctx context.Context) (*enginetypes.Info, error) {
	return &enginetypes.Info{Type: "sim", ID: e.N.Name, NCPU: e.N.NCPU, MemTotal: e.N.Mem}, nil
}
func (e *Engine) Ping(ctx context.Context) error       { return nil }
func (e *Engine) CloseConn() error                      { return nil }
func (e *Engine) GetParams() *enginetypes.Params        { return e.Params }
func (e *Engine) ExecResize(context.Context, string, uint, uint) error { return nil }
func (e *Engine) ExecExitCode(context.Context, string, string) (int, error) { return 0, nil }
func (e *Engine) Execute(ctx context.Context, ID string, config *enginetypes.ExecConfig) (string, io.ReadCloser, io.ReadCloser, io.WriteCloser, error) {
	return "", nil, nil, nil, fmt.Errorf("simengine: exec not modelled")
}
func (e *Engine) NetworkConnect(context.Context, string, string, string, string) ([]string, error) { return nil, nil }
func (e *Engine) NetworkDisconnect(context.Context, string, string, bool) error { return nil }
func (e *Engine) NetworkList(context.Context, []string) ([]*enginetypes.Network, error) { return nil, nil }
func (e *Engine) ImageList(context.Context, string) ([]*enginetypes.Image, error) { return nil, nil }
func (e *Engine) ImageRemove(context.Context, string, bool, bool) ([]string, error) {
	e.N.mu.Lock()
	e.N.ImageRemoves++ // how often this machine was acted upon (C21)
	e.N.mu.Unlock()
	return nil, nil
}

// ImageRemoveCount returns how many image removals this machine has seen.
func (n *Node) ImageRemoveCount() int {
	n.mu.Lock()
	defer n.mu.Unlock()
	return n.ImageRemoves
}
func (e *Engine) ImagesPrune(context.Context) error { return nil }
func (e *Engine) ImagePull(ctx context.Context, ref string, all bool) (io.ReadCloser, error) {
	if err := e.seam(ctx, "ImagePull"); err != nil {
		return nil, err
	}
	return io.NopCloser(bytes.NewReader(nil)), nil
}
func (e *Engine) ImagePush(context.Context, string) (io.ReadCloser, error) { return io.NopCloser(bytes.NewReader(nil)), nil }
func (e *Engine) ImageBuild(context.Context, io.Reader, []string, string) (io.ReadCloser, error) {
	return io.NopCloser(bytes.NewReader(nil)), nil
}
func (e *Engine) ImageBuildCachePrune(context.Context, bool) (uint64, error) { return 0, nil }
func (e *Engine) ImageLocalDigests(ctx context.Context, image string) ([]string, error) {
	return nil, fmt.Errorf("simengine: image %s not cached", image)
}
func (e *Engine) ImageRemoteDigest(context.Context, string) (string, error) { return "", nil }
func (e *Engine) ImageBuildFromExist(context.Context, string, []string, string) (string, error) { return "", nil }
func (e *Engine) BuildRefs(context.Context, *enginetypes.BuildRefOptions) []string { return nil }
func (e *Engine) BuildContent(context.Context, coresource.Source, *enginetypes.BuildContentOptions) (string, io.Reader, error) {
	return "", nil, fmt.Errorf("simengine: build not modelled")
}
func (e *Engine) RawEngine(context.Context, *enginetypes.RawEngineOptions) (*enginetypes.RawEngineResult, error) {
	return &enginetypes.RawEngineResult{}, nil
}

// VirtualizationCreate creates a stopped container.
func (e *Engine) VirtualizationCreate(ctx context.Context, opts *enginetypes.VirtualizationCreateOptions) (*enginetypes.VirtualizationCreated, error) {
	if err := e.seam(ctx, "Create"); err != nil {
		return nil, err
	}
	n := e.N
	n.mu.Lock()
	defer n.mu.Unlock()
	if n.Beh.CreateErr {
		return nil, fmt.Errorf("simengine: machine %s refuses to create containers", n.Name)
	}
	n.seq++
	id := fmt.Sprintf("%s%056x%04x", hex4(n.Name), 0xc0ffee, n.seq)
	labels := map[string]string{}
	for k, v := range opts.Labels {
		labels[k] = v
	}
	tid, at := e.Sim.ReleasedOfCaller()
	c := &Container{ID: id, Name: opts.Name, Labels: labels, Opts: opts, Files: map[string]File{}, Resource: opts.EngineParams, Created: n.seq, Tid: tid, SeamAt: at,
		LogLines: append([]string(nil), n.Beh.LogLines...), ExitCode: n.Beh.ExitCode}
	n.Containers[id] = c
	n.CreateLog = append(n.CreateLog, id)
	return &enginetypes.VirtualizationCreated{ID: id, Name: opts.Name, Labels: map[string]string{}}, nil
}

func hex4(s string) string {
	h := uint32(2166136261)
	for i := 0; i < len(s); i++ {
		h = (h ^ uint32(s[i])) * 16777619
	}
	return fmt.Sprintf("%04x", h&0xffff)
}

func (e *Engine) with(ctx context.Context, what, id string, f func(c *Container) error) error {
	if err := e.seam(ctx, what); err != nil {
		return err
	}
	e.N.mu.Lock()
	defer e.N.mu.Unlock()
	c, ok := e.N.Containers[id]
	if !ok {
		return coretypes.ErrWorkloadNotExists
	}
	return f(c)
}

func (e *Engine) VirtualizationCopyTo(ctx context.Context, ID, target string, content []byte, uid, gid int, mode int64) error {
	return e.with(ctx, "CopyTo", ID, func(c *Container) error {
		c.Files[target] = File{Content: append([]byte(nil), content...), UID: uid, GID: gid, Mode: mode}
		return nil
	})
}

// VirtualizationCopyChunkTo reads the stream as scripted by Behaviour.CopyChunk.
func (e *Engine) VirtualizationCopyChunkTo(ctx context.Context, ID, target string, size int64, content io.Reader, uid, gid int, mode int64) error {
	if err := e.seam(ctx, "CopyChunkTo"); err != nil {
		return err
	}
	e.N.mu.Lock()
	c, ok := e.N.Containers[ID]
	beh := e.N.Beh
	e.N.mu.Unlock()
	if !ok {
		return coretypes.ErrWorkloadNotExists
	}
	switch beh.CopyChunk {
	case 1:
		return fmt.Errorf("simengine: copy rejected")
	case 2:
		buf := make([]byte, beh.ChunkReadBytes)
		_, _ = io.ReadFull(content, buf)
		return fmt.Errorf("simengine: copy aborted after %d bytes", beh.ChunkReadBytes)
	}
	data, err := io.ReadAll(content)
	if err != nil {
		return err
	}
	e.N.mu.Lock()
	c.Files[target] = File{Content: data, UID: uid, GID: gid, Mode: mode}
	e.N.mu.Unlock()
	return nil
}

func (e *Engine) VirtualizationStart(ctx context.Context, ID string) error {
	return e.with(ctx, "Start", ID, func(c *Container) error {
		c.Running = true
		c.Started++
		return nil
	})
}

func (e *Engine) VirtualizationStop(ctx context.Context, ID string, _ time.Duration) error {
	return e.with(ctx, "Stop", ID, func(c *Container) error {
		c.Running = false
		c.Stopped++
		return nil
	})
}

func (e *Engine) VirtualizationRemove(ctx context.Context, ID string, volumes, force bool) error {
	if err := e.seam(ctx, "Remove"); err != nil {
		return err
	}
	e.N.mu.Lock()
	defer e.N.mu.Unlock()
	c, ok := e.N.Containers[ID]
	if !ok {
		return coretypes.ErrWorkloadNotExists
	}
	if c.Running && !force {
		return fmt.Errorf("simengine: container %s is running", ID)
	}
	delete(e.N.Containers, ID)
	e.N.Removed = append(e.N.Removed, ID)
	return nil
}

func (e *Engine) VirtualizationSuspend(ctx context.Context, ID string) error {
	return e.with(ctx, "Suspend", ID, func(c *Container) error { return nil })
}

func (e *Engine) VirtualizationResume(ctx context.Context, ID string) error {
	return e.with(ctx, "Resume", ID, func(c *Container) error { return nil })
}

func (e *Engine) VirtualizationInspect(ctx context.Context, ID string) (info *enginetypes.VirtualizationInfo, err error) {
	err = e.with(ctx, "Inspect", ID, func(c *Container) error {
		user := c.Opts.User
		if e.N.Beh.InspectUser != "" {
			user = e.N.Beh.InspectUser
		}
		info = &enginetypes.VirtualizationInfo{ID: c.ID, User: user, Image: c.Opts.Image, Running: c.Running, Env: c.Opts.Env, Labels: c.Labels, Networks: map[string]string{}}
		return nil
	})
	return
}

func (e *Engine) VirtualizationLogs(ctx context.Context, opts *enginetypes.VirtualizationLogStreamOptions) (stdout, stderr io.ReadCloser, err error) {
	err = e.with(ctx, "Logs", opts.ID, func(c *Container) error {
		if e.N.Beh.LogsErr {
			return fmt.Errorf("simengine: cannot fetch logs")
		}
		var b bytes.Buffer
		for _, l := range c.LogLines {
			b.WriteString(l + "\n")
		}
		stdout = io.NopCloser(bytes.NewReader(b.Bytes()))
		stderr = io.NopCloser(bytes.NewReader(nil))
		return nil
	})
	return
}

type nopWriteCloser struct{ io.Writer }

func (nopWriteCloser) Close() error { return nil }

func (e *Engine) VirtualizationAttach(ctx context.Context, ID string, stream, openStdin bool) (stdout, stderr io.ReadCloser, stdin io.WriteCloser, err error) {
	err = e.with(ctx, "Attach", ID, func(c *Container) error {
		var b bytes.Buffer
		for _, l := range c.LogLines {
			b.WriteString(l + "\n")
		}
		stdout = io.NopCloser(bytes.NewReader(b.Bytes()))
		stderr = io.NopCloser(bytes.NewReader(nil))
		stdin = nopWriteCloser{io.Discard}
		return nil
	})
	return
}

func (e *Engine) VirtualizationResize(ctx context.Context, ID string, height, width uint) error { return nil }

func (e *Engine) VirtualizationWait(ctx context.Context, ID, state string) (r *enginetypes.VirtualizationWaitResult, err error) {
	err = e.with(ctx, "Wait", ID, func(c *Container) error {
		if e.N.Beh.WaitErr {
			return fmt.Errorf("simengine: wait failed")
		}
		c.Running = false
		r = &enginetypes.VirtualizationWaitResult{Code: c.ExitCode}
		return nil
	})
	return
}

func (e *Engine) VirtualizationUpdateResource(ctx context.Context, ID string, params resourcetypes.Resources) error {
	return e.with(ctx, "UpdateResource", ID, func(c *Container) error {
		c.Resource = params
		c.Updates++
		return nil
	})
}

func (e *Engine) VirtualizationCopyFrom(ctx context.Context, ID, path string) (content []byte, uid, gid int, mode int64, err error) {
	err = e.with(ctx, "CopyFrom", ID, func(c *Container) error {
		f, ok := c.Files[path]
		if !ok {
			return fmt.Errorf("simengine: no such file %s", path)
		}
		content, uid, gid, mode = f.Content, f.UID, f.GID, f.Mode
		return nil
	})
	return
}
