package harness

import (
	"net"

	"google.golang.org/grpc/peer"
	"context"
	"encoding/json"
	"errors"
	"fmt"
	"time"

	"github.com/projecteru2/core/utils"

	"verif/sim/simrt"
)

// ---------------------------------------------------------------------------
// H-txn (C17): utils.Txn / utils.PCR with steps that park at the scheduler and a
// canceller task that cancels the caller's context at a chosen point. The space
// (form x outcome vector x cancellation point) is enumerated completely: the seed
// indexes it.
// ---------------------------------------------------------------------------

type txnCfg struct {
	Form     string `json:"form"`     // txn | pcr
	Cond     string `json:"cond"`     // ok | fail
	Then     string `json:"then"`     // ok | fail | absent
	Rollback string `json:"rollback"` // ok | fail | absent
	Cancel   string `json:"cancel"`   // none | before | in-cond | between | in-then | in-rollback | after
	TTLMs    int    `json:"ttl_ms"`
	StepMs   int    `json:"step_ms"` // virtual time each step takes (may exceed the ttl)
	Peer     bool   `json:"peer,omitempty"` // the caller's context is that of a gRPC request (carries peer info)
}

var txnForms = []string{"txn", "pcr"}
var txnConds = []string{"ok", "fail"}
var txnThens = []string{"ok", "fail", "absent"}
var txnRolls = []string{"ok", "fail", "absent"}
var txnCancels = []string{"none", "before", "in-cond", "between", "in-then", "in-rollback", "after"}

// TxnSpace is the size of the enumerated space.
const TxnSpace = 2 * 2 * 3 * 3 * 7

type txnH struct{}

func init() { Register("txn", txnH{}) }

func (txnH) Generate(property string, seed uint64, tier string) *Case {
	i := int(seed % TxnSpace)
	cfg := txnCfg{TTLMs: 1000, StepMs: 10}
	cfg.Form = txnForms[i%2]
	i /= 2
	cfg.Cond = txnConds[i%2]
	i /= 2
	cfg.Then = txnThens[i%3]
	i /= 3
	cfg.Rollback = txnRolls[i%3]
	i /= 3
	cfg.Cancel = txnCancels[i%7]
	// beyond the first full enumeration, vary the timing: steps that outlast the ttl
	if seed/TxnSpace%3 == 1 {
		cfg.StepMs = 700
	}
	if seed/TxnSpace%3 == 2 {
		cfg.StepMs = 1500
	}
	cfg.Peer = seed/(TxnSpace*3)%2 == 1
	return &Case{Plan: simrt.Plan{Policy: "fifo", CrashAt: -1}, Cfg: mustJSON(cfg), Ops: []json.RawMessage{mustJSON(map[string]int{"index": int(seed % TxnSpace)})}}
}

type txnCall struct {
	Step        string
	ErrAtEntry  string
	ErrAtExit   string
	FailByCond  bool
	CallerDead  bool // the caller's context was already cancelled when the step began
}

func errStr(err error) string {
	if err == nil {
		return ""
	}
	return err.Error()
}

func (txnH) Execute(c *Case, res *Result) {
	var cfg txnCfg
	_ = json.Unmarshal(c.Cfg, &cfg)
	sim := simrt.New(c.Seed, c.Plan)
	sim.KeepTrace = traceWanted
	var calls []txnCall
	viol := func(rule, detail string) {
		res.Violations = append(res.Violations, Violation{Property: "C17", Rule: rule, Sig: cfg.Form, Detail: fmt.Sprintf("%s; case %+v; calls %+v", detail, cfg, calls)})
	}
	errCond, errThen, errRoll := errors.New("cond failed"), errors.New("then failed"), errors.New("rollback failed")
	sim.Go(func() {
		base := context.Background()
		if cfg.Peer {
			base = peer.NewContext(base, &peer.Peer{Addr: &net.TCPAddr{IP: net.IPv4(10, 0, 0, 9), Port: 4711}})
		}
		ctx, cancel := context.WithCancel(base)
		defer cancel()
		cancelled := false
		at := func(p string) {
			if cfg.Cancel == p {
				cancel()
				cancelled = true
			}
		}
		step := func(name string, outcome string, e error) func(context.Context) error {
			return func(sctx context.Context) error {
				call := txnCall{Step: name, ErrAtEntry: errStr(sctx.Err()), CallerDead: cancelled}
				_ = sim.Seam(nil, "txn", name, false)
				at("in-" + name)
				time.Sleep(time.Duration(cfg.StepMs) * time.Millisecond)
				call.ErrAtExit = errStr(sctx.Err())
				calls = append(calls, call)
				if name == "cond" {
					at("between")
				}
				if outcome == "fail" {
					return e
				}
				return nil
			}
		}
		cond := step("cond", cfg.Cond, errCond)
		var then func(context.Context) error
		if cfg.Then != "absent" {
			then = step("then", cfg.Then, errThen)
		}
		at("before")
		var got error
		ttl := time.Duration(cfg.TTLMs) * time.Millisecond
		if cfg.Form == "txn" {
			var rollback func(context.Context, bool) error
			if cfg.Rollback != "absent" {
				inner := step("rollback", cfg.Rollback, errRoll)
				rollback = func(rctx context.Context, byCond bool) error {
					err := inner(rctx)
					calls[len(calls)-1].FailByCond = byCond
					return err
				}
			}
			got = utils.Txn(ctx, cond, then, rollback, ttl)
		} else {
			// PCR requires all three functions
			if then == nil {
				then = func(context.Context) error { return nil }
			}
			rb := step("rollback", cfg.Rollback, errRoll)
			if cfg.Rollback == "absent" {
				rb = step("rollback", "ok", nil)
			}
			got = utils.PCR(ctx, cond, then, rb, ttl)
		}
		at("after")
		res.OpsRun = 1
		res.Nontrivial = true
		// ---- oracle ----
		n := map[string]int{}
		var rbCall *txnCall
		for i := range calls {
			n[calls[i].Step]++
			if calls[i].Step == "rollback" {
				rbCall = &calls[i]
			}
		}
		condFailed := cfg.Cond == "fail"
		thenPresent := cfg.Then != "absent"
		thenFailed := !condFailed && thenPresent && cfg.Then == "fail"
		if n["cond"] != 1 {
			viol("cond-count", fmt.Sprintf("condition step ran %d times", n["cond"]))
		}
		wantThen := 0
		if !condFailed && thenPresent {
			wantThen = 1
		}
		if n["then"] != wantThen {
			viol("then-count", fmt.Sprintf("follow-up step ran %d times, expected %d", n["then"], wantThen))
		}
		wantRB := 0
		if cfg.Form == "txn" {
			if (condFailed || thenFailed) && cfg.Rollback != "absent" {
				wantRB = 1
			}
		} else if thenFailed {
			wantRB = 1 // PCR rolls back only when the commit step fails
		}
		if n["rollback"] != wantRB {
			viol("rollback-count", fmt.Sprintf("rollback ran %d times, expected %d", n["rollback"], wantRB))
		}
		if rbCall != nil {
			if cfg.Form == "txn" && rbCall.FailByCond != condFailed {
				viol("rollback-flag", fmt.Sprintf("rollback was told failureByCond=%v but the condition step failed=%v", rbCall.FailByCond, condFailed))
			}
			// the caller's cancellation must not reach the rollback
			if cfg.Cancel != "none" && (rbCall.ErrAtEntry == context.Canceled.Error() || rbCall.ErrAtExit == context.Canceled.Error()) {
				viol("rollback-interrupted", fmt.Sprintf("the rollback's context reports %q/%q: the caller's cancellation reached it", rbCall.ErrAtEntry, rbCall.ErrAtExit))
			}
			if rbCall.ErrAtEntry != "" {
				viol("rollback-ctx-dead", fmt.Sprintf("the rollback started under a dead context: %s", rbCall.ErrAtEntry))
			}
		}
		var want error
		switch {
		case condFailed:
			want = errCond
		case thenFailed:
			want = errThen
		}
		if got != want {
			viol("return-value", fmt.Sprintf("returned %v, expected %v", got, want))
		}
		res.StateHash = append(res.StateHash, hashStr(fmt.Sprintf("%+v|%v", calls, got)))
	})
	sim.Run(nil, time.Hour)
	sim.Finish()
	res.Stats = sim.Stats
	res.TraceHash = hashStr(string(c.Cfg)) + sim.TraceHash()
	res.Trace = sim.Trace
	sim.Stop()
}
