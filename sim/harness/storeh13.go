package harness

import (
	"context"
	"fmt"

	coretypes "github.com/projecteru2/core/types"
	"github.com/projecteru2/core/utils"
)

// C13 at the store level, on both backends: the marker protocol a deployment follows
// (create the in-progress marker with the planned count; for every instance record the
// workload and decrement the marker in one step, or - when the instance fails after it
// was recorded - remove the record again; finally delete the marker). After every step
// the deployed-plus-in-progress count of the node must stay between the workloads
// recorded there and prior + planned; after the marker is deleted it must equal the
// recorded workloads. The whole-system check of C13 runs on etcd only; this one makes the
// same demand of the Redis store.
func deploySeq(ctx context.Context, b *stBackend, op storeOp, viol func(p, rule, sig, detail string), res *Result) error {
	st, m := b.st, b.model
	recorded := func() int {
		n := 0
		for _, id := range sortedKeys(m.Workloads) {
			w := m.Workloads[id]
			if w.App == op.App && w.Entry == op.Entry && w.Node == op.Node {
				n++
			}
		}
		return n
	}
	status := func() (int, error) {
		ds, err := st.GetDeployStatus(ctx, op.App, op.Entry)
		return ds[op.Node], err
	}
	prior, err := status()
	if err != nil {
		return err
	}
	planned := op.Count
	proc := &coretypes.Processing{Appname: op.App, Entryname: op.Entry, Nodename: op.Node, Ident: "dep" + op.ID}
	if err := st.CreateProcessing(ctx, proc, planned); err != nil {
		return err
	}
	check := func(step string) {
		got, err := status()
		if err != nil {
			return
		}
		res.Probes["c13_store_step_checked"]++
		if got < recorded() {
			viol("C13", "count-below-recorded", b.name+":store", fmt.Sprintf("%s store, %s: deploy status of %s/%s on %s is %d but %d workloads are recorded there", b.name, step, op.App, op.Entry, op.Node, got, recorded()))
		}
		if got > prior+planned {
			viol("C13", "count-above-planned", b.name+":store", fmt.Sprintf("%s store, %s: deploy status of %s/%s on %s is %d, above prior %d + planned %d", b.name, step, op.App, op.Entry, op.Node, got, prior, planned))
		}
	}
	check("after creating the marker")
	for i := 0; i < planned; i++ {
		id := fmt.Sprintf("%s-%d", op.ID, i)
		wl := &coretypes.Workload{ID: id, Name: utils.MakeWorkloadName(op.App, op.Entry, "ident"), Podname: "p0", Nodename: op.Node, Image: "img"}
		// op.TTL is used as a bit mask of the instances that fail
		fails := op.TTL&(1<<uint(i)) != 0
		if fails && op.Flag {
			// fails before it is recorded: the marker keeps its share until the end
			res.Probes["c13_store_instance_failed_early"]++
			continue
		}
		if err := st.AddWorkload(ctx, wl, proc); err != nil {
			return err
		}
		m.Workloads[id] = &stWorkload{ID: id, App: op.App, Entry: op.Entry, Node: op.Node, Name: wl.Name}
		check(fmt.Sprintf("after recording instance %d", i))
		if fails {
			// fails after it was recorded (start, hook): the deployment removes the record
			if err := st.RemoveWorkload(ctx, wl); err != nil {
				return err
			}
			delete(m.Workloads, id)
			res.Probes["c13_store_instance_rolled_back"]++
			check(fmt.Sprintf("after rolling back instance %d", i))
		}
	}
	if err := st.DeleteProcessing(ctx, proc); err != nil {
		return err
	}
	got, err := status()
	if err == nil {
		res.Probes["c13_store_deploy_finished"]++
		if got != recorded() {
			viol("C13", "count-wrong-after-return", b.name+":store", fmt.Sprintf("%s store: after the deployment returned the deploy status of %s/%s on %s is %d, %d workloads are recorded there", b.name, op.App, op.Entry, op.Node, got, recorded()))
		}
	}
	return nil
}
