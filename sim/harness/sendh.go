package harness

import (
	"bytes"
	"context"
	"encoding/json"
	"fmt"
	"math/rand/v2"
	"sort"
	"time"

	"github.com/projecteru2/core/rpc"
	pb "github.com/projecteru2/core/rpc/gen"
	coretypes "github.com/projecteru2/core/types"
	"google.golang.org/grpc/metadata"

	"verif/sim/simrt"
)

// ---------------------------------------------------------------------------
// H-send (C29): rpc.Vibranium.Send with a fake stream object -> real chunking ->
// real Calcium.SendLargeFile -> simulated engines that read everything, reject the
// copy at once, or abort after reading part of it.
// ---------------------------------------------------------------------------

type sendOp struct {
	Sizes   []int `json:"sizes"`   // one file per entry; size in bytes
	Targets []int `json:"targets"` // workload slots; -1 = a workload id that does not exist; repeats allowed
	Mode    int64 `json:"mode"`
	UID     int   `json:"uid"`
	GID     int   `json:"gid"`
	// Direct: through the cluster API's Send (all files of a request in one call, plain
	// engine copies) instead of the RPC layer's chunked path
	Direct bool `json:"direct,omitempty"`
}

type sendH struct{}

func init() { Register("send", sendH{}) }

func (sendH) Generate(property string, seed uint64, tier string) *Case {
	g := rand.New(rand.NewPCG(seed, 0x5e4d))
	chunk := coretypes.SendLargeFileChunkSize
	cfg := cluCfg{ShareBase: 100, MaxShare: -1, Tasks: 1, Mode: "seq", Pods: []string{"p0"}}
	nn := 1 + g.IntN(2)
	for i := 0; i < nn; i++ {
		n := cluNode{Name: fmt.Sprintf("n%d", i), Pod: "p0", Cores: 4, Memory: 8192 * mib, HBTTL: 86400}
		switch g.IntN(4) {
		case 0:
			n.Beh.CopyChunk = 1
		case 1:
			n.Beh.CopyChunk = 2
			n.Beh.ChunkReadBytes = g.IntN(3 * chunk)
		}
		cfg.Nodes = append(cfg.Nodes, n)
	}
	sizes := []int{0, 1, chunk - 1, chunk, chunk + 1, 3 * chunk, 11*chunk + 7, 12 * chunk, 25*chunk + 1, 40 * chunk}
	var ops []json.RawMessage
	for i := 0; i < 1+g.IntN(3); i++ {
		op := sendOp{Mode: []int64{0, 0o644, 0o755}[g.IntN(3)], UID: g.IntN(2) * 1000, GID: g.IntN(2) * 1000}
		for k := 0; k < 1+g.IntN(2); k++ {
			op.Sizes = append(op.Sizes, sizes[g.IntN(len(sizes))])
		}
		if g.IntN(3) == 0 {
			op.Direct = true
			op.Sizes = append(op.Sizes, sizes[g.IntN(4)])
		}
		for k := 0; k < 1+g.IntN(3); k++ {
			t := g.IntN(4)
			if g.IntN(5) == 0 {
				t = -1
			}
			op.Targets = append(op.Targets, t)
		}
		ops = append(ops, mustJSON(op))
	}
	return &Case{Plan: simrt.Plan{Policy: []string{"fifo", "random", "sticky"}[g.IntN(3)], CrashAt: -1}, Cfg: mustJSON(cfg), Ops: ops}
}

type fakeSendStream struct {
	ctx  context.Context
	msgs []*pb.SendMessage
}

func (s *fakeSendStream) Send(m *pb.SendMessage) error  { s.msgs = append(s.msgs, m); return nil }
func (s *fakeSendStream) SetHeader(metadata.MD) error   { return nil }
func (s *fakeSendStream) SendHeader(metadata.MD) error  { return nil }
func (s *fakeSendStream) SetTrailer(metadata.MD)        {}
func (s *fakeSendStream) Context() context.Context      { return s.ctx }
func (s *fakeSendStream) SendMsg(m interface{}) error   { return nil }
func (s *fakeSendStream) RecvMsg(m interface{}) error   { return nil }

func (sendH) Execute(c *Case, res *Result) {
	var cfg cluCfg
	_ = json.Unmarshal(c.Cfg, &cfg)
	sim := simrt.New(c.Seed, c.Plan)
	sim.KeepTrace = traceWanted
	w := newCluWorld(sim, res, "C29", cfg, c.Seed)
	defer w.cleanup()
	var ops []sendOp
	for _, raw := range c.Ops {
		var op sendOp
		_ = json.Unmarshal(raw, &op)
		ops = append(ops, op)
	}
	sim.Go(func() {
		ctx := context.Background()
		sim.SetFaultsEnabled(false)
		w.core = w.boot("")
		if _, err := w.core.cal.AddPod(ctx, "p0", ""); err != nil {
			res.Harness = "setup: " + err.Error()
			return
		}
		for _, n := range cfg.Nodes {
			if err := w.addNode(ctx, n); err != nil {
				res.Harness = "setup: " + err.Error()
				return
			}
		}
		// a few workloads to send files to
		ch, err := w.core.cal.CreateWorkload(ctx, w.deployOpts(cluOp{App: "app", Entry: "main", Strategy: "AUTO", Count: 4, UsePod: true, Req: resReq{MemReq: 64 * mib}}))
		if err != nil {
			res.Harness = "setup create: " + err.Error()
			return
		}
		for range ch {
		}
		sim.Settle()
		ids := w.liveWorkloads()
		if len(ids) == 0 {
			res.Harness = "setup: no workload could be created"
			return
		}
		state := w.readState()
		vib := rpc.New(w.core.cal, w.ccfg, make(chan struct{}))
		for i, op := range ops {
			w.opIndex = i
			w.curOp = fmt.Sprintf("op#%d %s", i, string(c.Ops[i]))
			opts := &pb.SendOptions{Data: map[string][]byte{}, Modes: map[string]*pb.FileMode{}, Owners: map[string]*pb.FileOwner{}}
			want := map[string]bool{}
			for _, t := range op.Targets {
				id := "ffff000000000000000000000000000000000000000000000000000000000000"
				if t >= 0 {
					id = ids[t%len(ids)]
				}
				opts.IDs = append(opts.IDs, id)
				want[id] = true
			}
			content := map[string][]byte{}
			for k, sz := range op.Sizes {
				name := fmt.Sprintf("/tmp/file-%d-%d", i, k)
				b := make([]byte, sz)
				for j := range b {
					b[j] = byte(j*31 + k + i)
				}
				content[name] = b
				opts.Data[name] = b
				opts.Modes[name] = &pb.FileMode{Mode: op.Mode}
				opts.Owners[name] = &pb.FileOwner{Uid: int32(op.UID), Gid: int32(op.GID)}
			}
			stream := &fakeSendStream{ctx: ctx}
			done := make(chan error, 1)
			if op.Direct {
				// (no RPC reaches this entry point; it is driven with distinct targets, the
				// de-duplication of a request's target list being the RPC path's business)
				so := &coretypes.SendOptions{IDs: sortedKeys(want)}
				var fnames []string
				for n := range content {
					fnames = append(fnames, n)
				}
				sort.Strings(fnames)
				for _, n := range fnames {
					so.Files = append(so.Files, coretypes.LinuxFile{Filename: n, Content: content[n], UID: op.UID, GID: op.GID, Mode: op.Mode})
				}
				res.Probes["sends_through_cluster_api"]++
				go func() {
					ch, err := w.core.cal.Send(ctx, so)
					if err == nil {
						for m := range ch {
							pm := &pb.SendMessage{Id: m.ID, Path: m.Path}
							if m.Error != nil {
								pm.Error = m.Error.Error()
							}
							stream.msgs = append(stream.msgs, pm)
						}
					}
					done <- err
				}()
			} else {
				go func() { done <- vib.Send(opts, stream) }()
			}
			finished := false
			t0 := time.Now()
			for !finished && time.Since(t0) < 20*time.Minute {
				select {
				case <-done:
					finished = true
				default:
					sim.Settle()
					select {
					case <-done:
						finished = true
					default:
						time.Sleep(time.Minute)
					}
				}
			}
			res.OpsRun++
			res.Probes["sends"]++
			if !finished {
				sig := "targets-ok"
				for id := range want {
					if state.Workloads[id] == nil {
						sig = "missing-target"
					}
				}
				for _, n := range cfg.Nodes {
					if n.Beh.CopyChunk != 0 && sig == "targets-ok" {
						sig = "engine-abort"
					}
				}
				w.viol("C29", "send-never-finishes", sig, fmt.Sprintf("Send did not return within 20 minutes of virtual time after all activity had stopped (sizes %v, targets %v)", op.Sizes, op.Targets))
				return // the rpc goroutines are stuck for good
			}
			res.Nontrivial = true
			// exactly one result per (distinct target, file)
			got := map[string]int{}
			for _, m := range stream.msgs {
				got[m.Id+"|"+m.Path]++
			}
			var names []string
			for n := range content {
				names = append(names, n)
			}
			sort.Strings(names)
			for _, id := range sortedKeys(want) {
				wl := state.Workloads[id]
				if wl != nil && got[id+"|"] != 0 {
					// an existing target gets its results per file; a further result that names no
					// file is one result too many for that target
					w.viol("C29", "result-count", "extra-result-without-file", fmt.Sprintf("%d result(s) naming no file for the existing target %s on top of the per-file results; messages %v", got[id+"|"], shortID(id), got))
				}
				for _, name := range names {
					n := 0
					for k, c := range got {
						if k == id+"|"+name || (wl == nil && k == id+"|") {
							n += c
						}
					}
					if wl == nil {
						// a missing target is reported with an error and no path: one per file is expected
						if got[id+"|"] == 0 && got[id+"|"+name] == 0 {
							sz := "nonempty"
							if len(content[name]) == 0 {
								sz = "empty"
							}
							w.viol("C29", "no-result-for-target", "missing-target:"+sz, fmt.Sprintf("no result was reported for missing target %s and file %s (%d bytes); messages %v", shortID(id), name, len(content[name]), got))
						}
						continue
					}
					if got[id+"|"+name] != 1 {
						sz := "nonempty"
						if len(content[name]) == 0 {
							sz = "empty"
						}
						w.viol("C29", "result-count", sz, fmt.Sprintf("%d results for target %s and file %s (%d bytes), expected exactly one; messages %v", got[id+"|"+name], shortID(id), name, len(content[name]), got))
						continue
					}
					// content identical where the engine accepted the copy
					var msg *pb.SendMessage
					for _, m := range stream.msgs {
						if m.Id == id && m.Path == name {
							msg = m
						}
					}
					beh := w.engines[wl.Nodename].Beh
					if beh.CopyChunk == 0 {
						if msg.Error != "" {
							w.viol("C29", "unexpected-error", "copy", fmt.Sprintf("copy of %s to %s failed: %s", name, shortID(id), msg.Error))
							continue
						}
						cn, _ := w.engines[wl.Nodename].Get(id)
						f, ok := cn.Files[name]
						wantMode := op.Mode // "the requested owner and mode": nothing is defaulted on this path
						if op.Direct && op.UID == 0 && op.GID == 0 && op.Mode == 0 {
							wantMode = 0o755 // the cluster API's documented default when a request names neither owner nor mode
						}
						if !ok || !bytes.Equal(f.Content, content[name]) {
							w.viol("C29", "content-differs", "copy", fmt.Sprintf("file %s on %s has %d bytes, sent %d; identical=%v", name, shortID(id), len(f.Content), len(content[name]), ok && bytes.Equal(f.Content, content[name])))
						} else if f.UID != op.UID || f.GID != op.GID || f.Mode != wantMode {
							w.viol("C29", "owner-or-mode-differs", "copy", fmt.Sprintf("file %s on %s has uid/gid/mode %d/%d/%o, requested %d/%d/%o", name, shortID(id), f.UID, f.GID, f.Mode, op.UID, op.GID, wantMode))
						} else {
							res.Probes["file_delivered_intact"]++
						}
					} else if msg.Error == "" {
						w.viol("C29", "abort-not-reported", "copy", fmt.Sprintf("the engine rejected the copy of %s to %s but the result reports success", name, shortID(id)))
					} else {
						res.Probes["engine_abort_reported"]++
					}
				}
			}
		}
	})
	sim.Run(nil, 3*time.Hour)
	sim.Finish()
	if sim.Stuck {
		res.Stuck = sim.StuckWhy
	}
	res.Stats = sim.Stats
	res.TraceHash = sim.TraceHash()
	res.Trace = sim.Trace
	sim.Stop()
	if w.core != nil {
		w.core.cancel()
	}
}
