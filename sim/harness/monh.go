package harness

import (
	"context"
	"encoding/json"
	"fmt"
	"math/rand/v2"
	"time"

	"github.com/projecteru2/core/selfmon"
	coretypes "github.com/projecteru2/core/types"

	"verif/sim/simrt"
)

// ---------------------------------------------------------------------------
// H-mon (C28): the real node-status watcher (selfmon) over real Calcium/Mercury: node
// agents heartbeat with a TTL, a node's heartbeat lapses or is deleted, the watcher is
// started before or after that; every workload of a dead node must end up reported as
// neither running nor healthy.
// ---------------------------------------------------------------------------

type monOp struct {
	Kind string `json:"kind"` // start_watcher | lapse | delete_status | wait | create
	Node int    `json:"node,omitempty"`
	Ms   int    `json:"ms,omitempty"`
}

type monH struct{}

func init() { Register("mon", monH{}) }

func (monH) Generate(property string, seed uint64, tier string) *Case {
	g := rand.New(rand.NewPCG(seed, 0x5e1f))
	cfg := cluCfg{ShareBase: 100, MaxShare: -1, Tasks: 1, Mode: "seq", Pods: []string{"p0"}}
	nn := 1 + g.IntN(3)
	for i := 0; i < nn; i++ {
		cfg.Nodes = append(cfg.Nodes, cluNode{Name: fmt.Sprintf("n%d", i), Pod: "p0", Cores: 4, Memory: 8192 * mib, HBTTL: int64(12 + 4*g.IntN(3))})
	}
	var ops []json.RawMessage
	started := false
	n := 3 + g.IntN(7)
	for i := 0; i < n; i++ {
		op := monOp{Node: g.IntN(nn)}
		x := g.IntN(100)
		switch {
		case x < 20 && !started:
			op.Kind = "start_watcher"
			started = true
		case x < 45:
			op.Kind = "lapse"
		case x < 57:
			op.Kind = "delete_status"
		case x < 64:
			op.Kind = "revive"
		case x < 70 && started:
			op.Kind = "blip"
		case x < 80:
			op.Kind, op.Ms = "wait", 500+g.IntN(30000)
		default:
			op.Kind = "create"
		}
		ops = append(ops, mustJSON(op))
	}
	if !started {
		ops = append(ops, mustJSON(monOp{Kind: "start_watcher"}))
	}
	return &Case{Plan: simrt.Plan{Policy: []string{"fifo", "random", "sticky", "pct"}[g.IntN(4)], CrashAt: -1}, Cfg: mustJSON(cfg), Ops: ops}
}

func (monH) Execute(c *Case, res *Result) {
	var cfg cluCfg
	_ = json.Unmarshal(c.Cfg, &cfg)
	sim := simrt.New(c.Seed, c.Plan)
	sim.KeepTrace = traceWanted
	w := newCluWorld(sim, res, "C28", cfg, c.Seed)
	defer w.cleanup()
	var ops []monOp
	for _, raw := range c.Ops {
		var op monOp
		_ = json.Unmarshal(raw, &op)
		ops = append(ops, op)
	}
	sim.Go(func() {
		ctx, cancelAll := context.WithCancel(context.Background())
		defer cancelAll()
		sim.SetFaultsEnabled(false)
		w.core = w.boot("")
		if _, err := w.core.cal.AddPod(ctx, "p0", ""); err != nil {
			res.Harness = "setup: " + err.Error()
			return
		}
		agentStop := map[string]context.CancelFunc{}
		// the node's agent: re-reports the node as alive well inside its TTL
		startAgent := func(n cluNode, k int) {
			actx, stop := context.WithCancel(ctx)
			agentStop[n.Name] = stop
			go func() {
				for {
					select {
					case <-actx.Done():
						return
					case <-time.After(time.Duration(n.HBTTL)*time.Second/3 + offGrid(k)):
					}
					if actx.Err() != nil {
						return
					}
					_ = w.core.cal.SetNodeStatus(actx, n.Name, n.HBTTL)
				}
			}()
		}
		for k, n := range cfg.Nodes {
			if err := w.addNode(ctx, n); err != nil {
				res.Harness = "setup: " + err.Error()
				return
			}
			startAgent(n, k)
		}
		reported := map[string]*coretypes.StatusMeta{}
		nodeWLs := map[string][]string{}
		create := func(node string) {
			op := cluOp{App: "app", Entry: "main", Strategy: "AUTO", Count: 1 + int(sim.Gen.Uint64()%2), Includes: nil, Req: resReq{MemReq: 64 * mib}}
			o := w.deployOpts(op)
			o.NodeFilter = &coretypes.NodeFilter{Includes: []string{node}, All: true}
			ch, err := w.core.cal.CreateWorkload(ctx, o)
			if err != nil {
				return
			}
			var metas []*coretypes.StatusMeta
			for m := range ch {
				if m.Error == nil {
					// running, and healthy or not yet (health check pending)
					sm := &coretypes.StatusMeta{ID: m.WorkloadID, Running: true, Healthy: sim.Gen.Uint64()%3 != 0}
					reported[m.WorkloadID] = sm
					nodeWLs[node] = append(nodeWLs[node], m.WorkloadID)
					metas = append(metas, sm)
				}
			}
			if len(metas) > 0 {
				// the agent reports the new workloads as running and healthy
				_, _ = w.core.cal.SetWorkloadsStatus(ctx, metas, nil)
				res.Probes["workloads_reported_running"] += len(metas)
			}
		}
		for _, n := range cfg.Nodes {
			create(n.Name)
		}
		sim.Settle()
		dead := map[string]time.Time{}
		blipped := map[string]bool{} // workloads whose node's status disappeared for a moment (watcher active)
		watcherStarted := false
		var watcherStartedAt time.Time
		mcfg := w.ccfg
		for i, op := range ops {
			w.opIndex = i
			w.curOp = fmt.Sprintf("op#%d %s", i, string(c.Ops[i]))
			node := cfg.Nodes[op.Node%len(cfg.Nodes)]
			switch op.Kind {
			case "start_watcher":
				if !watcherStarted {
					watcherStarted = true
					watcherStartedAt = time.Now()
					mon := selfmon.NewWatcherForVerif(int64(1+i), mcfg, w.core.cal, w.core.cal.GetStore())
					go mon.RunForVerif(ctx)
					res.Probes["watcher_started"]++
					if len(dead) > 0 {
						res.Probes["watcher_started_after_a_lapse"]++
					}
				}
			case "lapse":
				if _, ok := dead[node.Name]; !ok {
					agentStop[node.Name]() // the machine is gone: no more heartbeats, the status expires with its TTL
					dead[node.Name] = time.Now().Add(time.Duration(node.HBTTL) * time.Second)
					res.Probes["heartbeat_lapsed"]++
				}
			case "delete_status":
				if _, ok := dead[node.Name]; !ok {
					agentStop[node.Name]()
					_ = w.core.cal.SetNodeStatus(ctx, node.Name, -1)
					dead[node.Name] = time.Now()
					res.Probes["status_deleted"]++
				}
			case "revive":
				// the machine comes back: heartbeats resume and its agent reports the workloads
				// as running again; it may lapse a second time later
				if at, ok := dead[node.Name]; ok && watcherStarted {
					if d := time.Until(at); d > 0 {
						time.Sleep(d)
					}
					time.Sleep(3*time.Minute + offGrid(2)) // (the first lapse is judged by then)
					sim.Settle()
					for _, id := range nodeWLs[node.Name] {
						if sm, err := w.core.cal.GetStore().GetWorkloadStatus(ctx, id); err == nil && sm != nil && (sm.Running || sm.Healthy) {
							w.viol("C28", "still-reported-up", "lapse-before-revival", fmt.Sprintf("node %s lost its heartbeat, three minutes later its workload %s is still reported running=%v healthy=%v", node.Name, shortID(id), sm.Running, sm.Healthy))
						}
					}
					_ = w.core.cal.SetNodeStatus(ctx, node.Name, node.HBTTL)
					startAgent(node, op.Node%len(cfg.Nodes))
					var metas []*coretypes.StatusMeta
					for _, id := range nodeWLs[node.Name] {
						if sm := reported[id]; sm != nil {
							metas = append(metas, sm)
							delete(blipped, id)
						}
					}
					if len(metas) > 0 {
						_, _ = w.core.cal.SetWorkloadsStatus(ctx, metas, nil)
					}
					delete(dead, node.Name)
					res.Probes["node_revived"]++
				}
			case "blip":
				// the status disappears and the heartbeat is back at once (an agent restart): the
				// status did disappear, so the workloads are to be reported down until their
				// agent says otherwise (it does not, here)
				if _, ok := dead[node.Name]; !ok && watcherStarted {
					// "while the watcher is active": it has had three minutes to take over and to
					// establish its watch
					if d := 3*time.Minute - time.Since(watcherStartedAt); d > 0 {
						time.Sleep(d + offGrid(3))
						sim.Settle()
					}
					_ = w.core.cal.SetNodeStatus(ctx, node.Name, -1)
					_ = w.core.cal.SetNodeStatus(ctx, node.Name, node.HBTTL)
					for _, id := range nodeWLs[node.Name] {
						blipped[id] = true
					}
					res.Probes["status_gone_for_a_moment"]++
				}
			case "wait":
				time.Sleep(time.Duration(op.Ms)*time.Millisecond + offGrid(1))
			case "create":
				if _, ok := dead[node.Name]; !ok {
					create(node.Name)
				}
			}
			res.OpsRun++
			sim.Settle()
			time.Sleep(5*time.Millisecond + offGrid(i%5))
		}
		// give the watcher time: TTLs have to run out, the watcher has to become active
		// (HA keep-alive interval) and to mark the workloads
		time.Sleep(3*time.Minute + offGrid(2))
		sim.Settle()
		st := w.readState()
		for _, name := range sortedKeys(dead) {
			res.Nontrivial = true
			for _, id := range sortedKeys(st.NodeWL[name]) {
				sm, err := w.core.cal.GetStore().GetWorkloadStatus(ctx, id)
				if err != nil {
					continue
				}
				res.Probes["dead_node_workload_checked"]++
				how := "lapse"
				if sm == nil {
					w.viol("C28", "status-missing", how, fmt.Sprintf("workload %s on dead node %s has no status at all", shortID(id), name))
					continue
				}
				if sm.Running || sm.Healthy {
					w.viol("C28", "still-reported-up", how, fmt.Sprintf("node %s lost its heartbeat at %v (watcher active) but its workload %s is still reported running=%v healthy=%v %v later", name, dead[name].Sub(sim.Start), shortID(id), sm.Running, sm.Healthy, time.Since(dead[name])))
				}
			}
		}
		// live nodes' workloads keep their status
		for _, n := range cfg.Nodes {
			if _, ok := dead[n.Name]; ok {
				continue
			}
			for _, id := range sortedKeys(st.NodeWL[n.Name]) {
				sm, err := w.core.cal.GetStore().GetWorkloadStatus(ctx, id)
				if blipped[id] {
					res.Nontrivial = true
					res.Probes["blipped_node_workload_checked"]++
					if err == nil && sm != nil && (sm.Running || sm.Healthy) {
						w.viol("C28", "still-reported-up", "status-gone-for-a-moment", fmt.Sprintf("the heartbeat status of node %s disappeared for a moment (watcher active) but its workload %s is still reported running=%v healthy=%v", n.Name, shortID(id), sm.Running, sm.Healthy))
					}
					continue
				}
				if rep := reported[id]; err == nil && sm != nil && rep != nil && (sm.Running != rep.Running || sm.Healthy != rep.Healthy) {
					w.viol("C28", "live-node-marked-down", "live", fmt.Sprintf("node %s kept heartbeating but its workload %s is reported running=%v healthy=%v (its agent said running=%v healthy=%v)", n.Name, shortID(id), sm.Running, sm.Healthy, rep.Running, rep.Healthy))
				}
			}
		}
	})
	sim.Run(nil, 6*time.Hour)
	sim.Finish()
	if sim.Stuck {
		res.Stuck = sim.StuckWhy
	}
	res.Stats = sim.Stats
	res.TraceHash = sim.TraceHash()
	res.Trace = sim.Trace
	sim.Stop()
	if w.core != nil {
		w.core.cancel()
	}
}
