// Package harness holds the simulated-world harnesses. One test binary serves all
// of them; /verif/bin/check.py fans seeds out over OS processes.
package harness

import (
	"encoding/json"
	"fmt"
	"hash/fnv"
	mrand "math/rand"
	"os"
	"runtime"
	"runtime/debug"
	"sync"
	"sort"
	"strings"
	"testing"
	"testing/synctest"
	"time"

	"verif/sim/simrt"
)

// Case is everything a run is a pure function of (together with the code).
type Case struct {
	Property string            `json:"property"`
	Harness  string            `json:"harness"`
	Seed     uint64            `json:"seed"`
	Tier     string            `json:"tier"`
	Plan     simrt.Plan        `json:"plan"`
	Cfg      json.RawMessage   `json:"cfg"`
	Ops      []json.RawMessage `json:"ops"`
}

// Violation is one oracle failure.
type Violation struct {
	Property string `json:"property"`
	Rule     string `json:"rule"`   // stable name of the oracle rule
	Sig      string `json:"sig"`    // shape signature used for known-finding matching
	Detail   string `json:"detail"` // human readable
	OpIndex  int    `json:"op_index"`
	Step     int    `json:"step"`
}

// Result is what one execution reports.
type Result struct {
	Seed       uint64             `json:"seed"`
	TraceHash  string             `json:"trace_hash"`
	Violations []Violation        `json:"violations,omitempty"`
	Stats      simrt.Stats        `json:"stats"`
	Probes     map[string]int     `json:"probes,omitempty"`
	Nontrivial bool               `json:"nontrivial"`
	StateHash  []string           `json:"state_hashes,omitempty"`
	OpsRun     int                `json:"ops_run"`
	Stuck      string             `json:"stuck,omitempty"`
	Harness    string             `json:"harness_error,omitempty"` // harness trouble: never a violation
	Trace      []simrt.TraceEvent `json:"trace,omitempty"`
	Replay     string             `json:"replay,omitempty"`
	Case       *Case              `json:"case,omitempty"`
	ShrinkRuns int                `json:"shrink_runs,omitempty"`
	SweepPos   int                `json:"sweep_pos,omitempty"`
	OtherProps int                `json:"violations_of_other_properties,omitempty"` // reported by those properties' own checks
}

// H is implemented by every harness.
type H interface {
	// Generate derives a case from a seed (pure).
	Generate(property string, seed uint64, tier string) *Case
	// Execute runs the case inside a fresh bubble (called within synctest).
	Execute(c *Case, r *Result)
}

var registry = map[string]H{}

// Register adds a harness.
func Register(name string, h H) { registry[name] = h }

// probe counters for the current run (single-threaded access: scheduler or the one running task).
type Probes map[string]int

func (p Probes) Hit(name string) { p[name]++ }

// RunCase executes a case in a bubble, capturing panics of the harness itself.
func RunCase(t *testing.T, c *Case, keepTrace bool) *Result {
	h, ok := registry[c.Harness]
	if !ok {
		return &Result{Seed: c.Seed, Harness: "unknown harness " + c.Harness}
	}
	res := &Result{Seed: c.Seed, Probes: map[string]int{}}
	// No garbage collection while a run is in flight: a GC cycle can reorder runnable
	// goroutines between two seams and with it the arrival order at the next seam.
	// Collect between runs instead (the memory limit still guards against runaway runs).
	gcOnce.Do(func() {
		debug.SetGCPercent(-1)
		debug.SetMemoryLimit(6 << 30)
	})
	runtime.GC()
	// math/rand's global source (used by the back-off jitter of cenkalti/backoff) is
	// re-seeded per run; needs GODEBUG=randseednop=0 with this Go release
	mrand.Seed(int64(c.Seed) + 1) //nolint:staticcheck
	var stopCapture func() string
	if raceBuild {
		stopCapture = captureStderr()
	}
	defer func() {
		if stopCapture == nil {
			return
		}
		// C34: every report of the race detector whose two accesses are made by core code
		for _, r := range parseRaces(stopCapture()) {
			res.Probes["race_reports"]++
			if !inCore(r.A) || !inCore(r.B) {
				res.Probes["race_reports_outside_core"]++
				if debugOn {
					fmt.Fprintf(os.Stdout, "NON-CORE RACE %s | %s\n%s\n", r.A, r.B, r.Text)
				}
				continue
			}
			if c.Property == "C34" {
				text := r.Text
				if len(text) > 6000 {
					text = text[:6000] + "\n..."
				}
				res.Violations = append(res.Violations, Violation{Property: "C34", Rule: "data-race", Sig: r.A + " | " + r.B, Detail: text})
			}
		}
	}()
	func() {
		defer func() {
			if p := recover(); p != nil {
				msg := fmt.Sprint(p)
				if strings.Contains(msg, "blocked goroutines remain") || strings.Contains(msg, "deadlock: main bubble goroutine has exited") {
					return // leftover background goroutines of a finished run: expected
				}
				res.Harness = fmt.Sprintf("panic: %v\n%s", p, debug.Stack())
			}
		}()
		synctest.Test(t, func(t *testing.T) {
			traceWanted = keepTrace
			h.Execute(c, res)
		})
	}()
	if c.Property != "" {
		kept := res.Violations[:0]
		for _, v := range res.Violations {
			if v.Property == c.Property {
				kept = append(kept, v)
			} else {
				res.OtherProps++
			}
		}
		res.Violations = kept
	}
	return res
}

var traceWanted bool

var gcOnce sync.Once

func sigOf(v Violation) string { return v.Property + "|" + v.Rule + "|" + v.Sig }

// sameFailure says whether res reproduces the violation class want.
func sameFailure(res *Result, want string) bool {
	for _, v := range res.Violations {
		if sigOf(v) == want {
			return true
		}
	}
	return false
}

// Shrink minimises a failing case while one violation with the same signature persists.
func Shrink(t *testing.T, c *Case, want string, budget int) (*Case, int) {
	runs := 0
	try := func(cand *Case) bool {
		if runs >= budget {
			return false
		}
		runs++
		r := RunCase(t, cand, false)
		return r.Harness == "" && sameFailure(r, want)
	}
	cur := cloneCase(c)
	// 1. canonical schedule / sorted maps / no faults at all
	for _, mod := range []func(*Case){
		func(x *Case) { x.Plan.Policy = "fifo"; x.Plan.Schedule = nil },
		func(x *Case) { x.Plan.MapSeed = 0 },
		func(x *Case) { x.Plan.ErrAt = nil },
		func(x *Case) { x.Plan.CrashAt = -1 },
		func(x *Case) { x.Plan.StallAt = nil },
	} {
		cand := cloneCase(cur)
		mod(cand)
		if try(cand) {
			cur = cand
		}
	}
	// 2. ddmin over ops
	n := 2
	for len(cur.Ops) >= 2 && runs < budget {
		chunk := (len(cur.Ops) + n - 1) / n
		reduced := false
		for i := 0; i < len(cur.Ops); i += chunk {
			cand := cloneCase(cur)
			j := i + chunk
			if j > len(cand.Ops) {
				j = len(cand.Ops)
			}
			cand.Ops = append(append([]json.RawMessage{}, cand.Ops[:i]...), cand.Ops[j:]...)
			if len(cand.Ops) == 0 {
				continue
			}
			if try(cand) {
				cur = cand
				if n > 2 {
					n--
				}
				reduced = true
				break
			}
		}
		if !reduced {
			if chunk == 1 {
				break
			}
			n *= 2
			if n > len(cur.Ops) {
				n = len(cur.Ops)
			}
		}
	}
	// 3. drop individual faults
	for i := 0; i < len(cur.Plan.ErrAt) && runs < budget; {
		cand := cloneCase(cur)
		cand.Plan.ErrAt = append(append([]int{}, cur.Plan.ErrAt[:i]...), cur.Plan.ErrAt[i+1:]...)
		if try(cand) {
			cur = cand
		} else {
			i++
		}
	}
	// 4. shorten explicit schedule
	for len(cur.Plan.Schedule) > 0 && runs < budget {
		cand := cloneCase(cur)
		cand.Plan.Schedule = cand.Plan.Schedule[:len(cand.Plan.Schedule)/2]
		if try(cand) {
			cur = cand
		} else {
			break
		}
	}
	return cur, runs
}

func cloneCase(c *Case) *Case {
	b, _ := json.Marshal(c)
	var d Case
	_ = json.Unmarshal(b, &d)
	return &d
}

func hashStr(s string) string {
	h := fnv.New64a()
	h.Write([]byte(s))
	return fmt.Sprintf("%x", h.Sum64())
}

func sortedKeys[V any](m map[string]V) []string {
	ks := make([]string, 0, len(m))
	for k := range m {
		ks = append(ks, k)
	}
	sort.Strings(ks)
	return ks
}

func mustJSON(v any) json.RawMessage {
	b, err := json.Marshal(v)
	if err != nil {
		panic(err)
	}
	return b
}

func envOr(k, d string) string {
	if v := os.Getenv(k); v != "" {
		return v
	}
	return d
}

// offGrid is added to every duration the harnesses sleep for: timers of the code under
// test fall on whole milliseconds (ticks of TTL/3, 500 ms polls), and a harness action
// landing on exactly the same virtual instant as such a timer would hand the outcome to
// Go's random choice among ready select cases, which no seed controls.
func offGrid(who int) time.Duration {
	return 333*time.Microsecond + time.Duration(who)*7*time.Microsecond
}

var debugOn = os.Getenv("VERIF_DEBUG") != ""
