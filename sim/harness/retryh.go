package harness

import (
	"context"
	"encoding/json"
	"fmt"
	"io"
	"math/rand/v2"
	"time"

	"github.com/projecteru2/core/client/interceptor"
	"google.golang.org/grpc"
	"google.golang.org/grpc/codes"
	"google.golang.org/grpc/metadata"
	"google.golang.org/grpc/status"

	"verif/sim/simrt"
)

// ---------------------------------------------------------------------------
// H-retry (C36): the real stream-retry interceptor over a simulated grpc.Streamer
// whose streams deliver some messages and then break, back-off on the virtual clock,
// and a caller that may cancel.
// ---------------------------------------------------------------------------

type retrySeg struct {
	Msgs      int    `json:"msgs"`       // messages this stream delivers before it breaks
	Break     string `json:"break"`      // unavailable | eof | internal
	OpenFails int    `json:"open_fails"` // attempts to open the *next* stream that fail first
}

type retryCfg struct {
	Method      string `json:"method"`
	Max         int    `json:"max"`
	CancelAfter int    `json:"cancel_after"` // cancel the caller's context after receiving this many messages (-1 never)
}

type retryH struct{}

func init() { Register("retry", retryH{}) }

func (retryH) Generate(property string, seed uint64, tier string) *Case {
	g := rand.New(rand.NewPCG(seed, 0x7e7))
	cfg := retryCfg{Method: "/pb.CoreRPC/WorkloadStatusStream", Max: 1 + g.IntN(4), CancelAfter: -1}
	switch g.IntN(5) {
	case 0:
		cfg.Method = "/pb.CoreRPC/WatchServiceStatus"
	case 1:
		cfg.Method = "/pb.CoreRPC/NodeStatusStream" // not a retried watch stream
	}
	if g.IntN(3) == 0 {
		cfg.CancelAfter = g.IntN(8)
	}
	var ops []json.RawMessage
	for i := 0; i < 1+g.IntN(5); i++ {
		s := retrySeg{Msgs: g.IntN(4), Break: []string{"unavailable", "eof", "internal"}[g.IntN(3)], OpenFails: g.IntN(cfg.Max + 2)}
		ops = append(ops, mustJSON(s))
	}
	return &Case{Plan: simrt.Plan{Policy: "fifo", CrashAt: -1}, Cfg: mustJSON(cfg), Ops: ops}
}

type retrySrv struct {
	sim       *simrt.Sim
	segs      []retrySeg
	opened    int // streams the server has seen
	openTries int // calls of the streamer
	failLeft  int // failing open attempts still to come before the next stream opens
	requests  []string
	sentTotal int
	openAfterCancel int
	cancelled *bool
}

type retryFakeStream struct {
	srv   *retrySrv
	ctx   context.Context
	idx   int
	given int
	req   bool
}

func (s *retryFakeStream) Header() (metadata.MD, error) { return nil, nil }
func (s *retryFakeStream) Trailer() metadata.MD         { return nil }
func (s *retryFakeStream) CloseSend() error             { return nil }
func (s *retryFakeStream) Context() context.Context     { return s.ctx }
func (s *retryFakeStream) SendMsg(m interface{}) error {
	_ = s.srv.sim.Seam(nil, "grpc", fmt.Sprintf("SendMsg stream%d", s.idx), false)
	if err := s.ctx.Err(); err != nil {
		return status.Error(codes.Canceled, err.Error())
	}
	s.req = true
	s.srv.requests = append(s.srv.requests, fmt.Sprintf("stream%d:%v", s.idx, *(m.(*string))))
	return nil
}
func (s *retryFakeStream) RecvMsg(m interface{}) error {
	_ = s.srv.sim.Seam(nil, "grpc", fmt.Sprintf("RecvMsg stream%d", s.idx), false)
	if err := s.ctx.Err(); err != nil {
		return status.Error(codes.Canceled, err.Error())
	}
	if s.idx >= len(s.srv.segs) {
		// the script is over: every further stream breaks at once, until the client gives up
		return status.Error(codes.Unavailable, "sim: connection lost")
	}
	seg := s.srv.segs[s.idx]
	if s.given < seg.Msgs {
		s.given++
		s.srv.sentTotal++
		*(m.(*string)) = fmt.Sprintf("m%d.%d", s.idx, s.given)
		return nil
	}
	switch seg.Break {
	case "eof":
		return io.EOF
	case "internal":
		return status.Error(codes.Internal, "sim: stream reset")
	}
	return status.Error(codes.Unavailable, "sim: connection lost")
}

func (retryH) Execute(c *Case, res *Result) {
	var cfg retryCfg
	_ = json.Unmarshal(c.Cfg, &cfg)
	sim := simrt.New(c.Seed, c.Plan)
	sim.KeepTrace = traceWanted
	var segs []retrySeg
	for _, raw := range c.Ops {
		var s retrySeg
		_ = json.Unmarshal(raw, &s)
		segs = append(segs, s)
	}
	cancelled := false
	srv := &retrySrv{sim: sim, segs: segs, cancelled: &cancelled}
	viol := func(rule, detail string) {
		res.Violations = append(res.Violations, Violation{Property: "C36", Rule: rule, Sig: "retry", Detail: fmt.Sprintf("%s; cfg %+v segments %+v; server saw requests %v", detail, cfg, segs, srv.requests)})
	}
	streamer := func(ctx context.Context, desc *grpc.StreamDesc, cc *grpc.ClientConn, method string, opts ...grpc.CallOption) (grpc.ClientStream, error) {
		_ = sim.Seam(nil, "grpc", "NewStream", false)
		srv.openTries++
		if err := ctx.Err(); err != nil {
			return nil, status.Error(codes.Canceled, err.Error()) // grpc refuses to open a stream on a dead context
		}
		if srv.failLeft > 0 {
			srv.failLeft--
			return nil, status.Error(codes.Unavailable, "sim: cannot connect")
		}
		st := &retryFakeStream{srv: srv, ctx: ctx, idx: srv.opened}
		srv.opened++
		if cancelled {
			srv.openAfterCancel++
		}
		if st.idx < len(segs) {
			srv.failLeft = segs[st.idx].OpenFails
		}
		return st, nil
	}
	sim.Go(func() {
		ctx, cancel := context.WithCancel(context.Background())
		defer cancel()
		ic := interceptor.NewStreamRetry(interceptor.RetryOptions{Max: cfg.Max})
		stream, err := ic(ctx, &grpc.StreamDesc{ServerStreams: true}, nil, cfg.Method, streamer)
		if err != nil {
			res.Harness = "could not open the first stream: " + err.Error()
			return
		}
		req := "the-request"
		if err := stream.SendMsg(&req); err != nil {
			res.Harness = "SendMsg: " + err.Error()
			return
		}
		watch := cfg.Method != "/pb.CoreRPC/NodeStatusStream"
		var got []string
		var finalErr error
		for len(got) < 64 {
			if cfg.CancelAfter >= 0 && len(got) == cfg.CancelAfter && !cancelled {
				cancelled = true
				cancel()
			}
			var m string
			if err := stream.RecvMsg(&m); err != nil {
				finalErr = err
				break
			}
			got = append(got, m)
		}
		res.OpsRun = 1
		res.Nontrivial = true
		// ---- oracle ----
		// "full": everything the scripted streams carry, in order. "must": the prefix a
		// transparent client has to deliver, i.e. as long as every reopening succeeds within
		// Max attempts (whether attempt Max+1 is still made is the implementation's choice).
		var full, must []string
		// The budget is counted per gap between two delivered messages: every failed attempt
		// to open a stream and every stream that breaks before delivering anything is one
		// failure; delivery is demanded while the failures of a gap stay below Max.
		budgetOK := true
		failures := 0
		for i, s := range segs {
			if i > 0 {
				failures += segs[i-1].OpenFails
				if failures+1 > cfg.Max {
					budgetOK = false
				}
			}
			for k := 1; k <= s.Msgs; k++ {
				full = append(full, fmt.Sprintf("m%d.%d", i, k))
				if budgetOK {
					must = append(must, fmt.Sprintf("m%d.%d", i, k))
				}
			}
			if !watch {
				full = full[:len(must)]
				break
			}
			if s.Msgs > 0 {
				failures = 0
			} else if i > 0 {
				failures++
			}
		}
		if cfg.CancelAfter >= 0 && cfg.CancelAfter < len(must) {
			must = must[:cfg.CancelAfter]
		}
		for i := range got {
			if i >= len(full) || got[i] != full[i] {
				viol("messages-wrong", fmt.Sprintf("message %d is %q but the streams carried %v", i, got[i], full))
				break
			}
		}
		if len(got) < len(must) {
			viol("messages-lost", fmt.Sprintf("the client received %v but the streams carried %v within the retry budget (final error %v)", got, must, finalErr))
		}
		if cancelled && srv.openAfterCancel > 0 {
			viol("retried-after-cancel", fmt.Sprintf("%d stream(s) were opened at the server after the caller had cancelled", srv.openAfterCancel))
		}
		if !watch && srv.opened > 1 {
			viol("non-watch-retried", fmt.Sprintf("method %s is not a watch stream but %d streams were opened", cfg.Method, srv.opened))
		}
		if watch {
			// every stream the server saw must have been given the original request
			seen := map[int]bool{}
			for _, r := range srv.requests {
				var idx int
				var body string
				fmt.Sscanf(r, "stream%d:%s", &idx, &body)
				if body != "the-request" {
					viol("request-not-resent", fmt.Sprintf("stream %d was sent %q instead of the original request", idx, body))
				}
				seen[idx] = true
			}
			for i := 0; i < srv.opened; i++ {
				if !seen[i] && !(cancelled && i == srv.opened-1) {
					viol("request-not-resent", fmt.Sprintf("stream %d was opened but never received the request", i))
				}
			}
			if srv.opened > 1 {
				res.Probes["stream_reopened"]++
			}
		}
		if !budgetOK {
			res.Probes["budget_exhausted"]++
		}
		if cancelled {
			res.Probes["caller_cancelled"]++
		}
		res.StateHash = append(res.StateHash, hashStr(fmt.Sprint(got, srv.requests)))
	})
	sim.Run(nil, 6*time.Hour)
	sim.Finish()
	if sim.Stuck {
		res.Stuck = sim.StuckWhy
		viol("no-progress", "the client did not finish: "+sim.StuckWhy)
	}
	res.Stats = sim.Stats
	res.TraceHash = sim.TraceHash()
	res.Trace = sim.Trace
	sim.Stop()
}
