package harness

import (
	"context"
	"errors"
	"encoding/json"
	"fmt"
	"math"
	"math/rand/v2"
	"os"
	"path/filepath"
	"sort"
	"strings"
	"time"

	"github.com/projecteru2/core/cluster/calcium"
	enginefactory "github.com/projecteru2/core/engine/factory"
	"github.com/projecteru2/core/resource/cobalt"
	"github.com/projecteru2/core/resource/plugins"
	plugintypes "github.com/projecteru2/core/resource/plugins/types"
	"github.com/projecteru2/core/store/etcdv3"
	"github.com/projecteru2/core/store/etcdv3/meta"
	"github.com/projecteru2/core/strategy"
	coretypes "github.com/projecteru2/core/types"
	"github.com/projecteru2/core/utils"
	"github.com/projecteru2/core/verifrt"
	"github.com/rs/zerolog"

	"verif/sim/simetcd"
	"verif/sim/simrt"
)

// ---------------------------------------------------------------------------
// H-plan (C01, C02, C03, C09): planning with simulated parties. Real Calcium
// (CalculateCapacity -> pod locks -> doGetDeployStrategy), real cobalt (concurrent
// plugin calls, merge), real strategies, real Mercury over simulated etcd; the resource
// plugins are simulated parties whose answers are scripted per history and whose
// completion order is a scheduler decision; the order in which cobalt merges their
// answers and calcium hands nodes to the strategy is the map-order seam.
// ---------------------------------------------------------------------------

type planOp struct {
	Kind     string   `json:"kind"` // plugin | node | answer | workload | marker | query
	Plugin   string   `json:"plugin,omitempty"`
	Weight   float64  `json:"weight,omitempty"`
	Node     string   `json:"node,omitempty"`
	Cap      int      `json:"cap,omitempty"`
	Usage    float64  `json:"usage,omitempty"`
	Rate     float64  `json:"rate,omitempty"`
	N        int      `json:"n,omitempty"`
	Strategy string   `json:"strategy,omitempty"`
	Count    int      `json:"count,omitempty"`
	Limit    int      `json:"limit,omitempty"`
	Includes []string `json:"includes,omitempty"`
	Repeat   int      `json:"repeat,omitempty"`
}

type planH struct{}

func init() { Register("plan", planH{}) }

const (
	planApp   = "app"
	planEntry = "main"
	planPod   = "p0"
)

var planStrategies = []string{strategy.Auto, strategy.Global, strategy.Drained, strategy.Each, strategy.Fill, strategy.Dummy}

func (planH) Generate(property string, seed uint64, tier string) *Case {
	g := rand.New(rand.NewPCG(seed, 0x91a2))
	var ops []json.RawMessage
	add := func(o planOp) { ops = append(ops, mustJSON(o)) }
	np := 1 + g.IntN(3)
	if property == "C09" && g.IntN(4) != 0 {
		np = 2 + g.IntN(2)
	}
	weights := []float64{1, 1, 2, 100, 0.5, 3}
	var pls []string
	for i := 0; i < np; i++ {
		name := fmt.Sprintf("p%c", 'a'+i)
		pls = append(pls, name)
		add(planOp{Kind: "plugin", Plugin: name, Weight: weights[g.IntN(len(weights))]})
	}
	nn := 1 + g.IntN(6)
	var nodes []string
	capKind := g.IntN(4) // 0: small, 1: mixed, 2: some unlimited, 3: equal capacities (ties)
	eq := 1 + g.IntN(5)
	for i := 0; i < nn; i++ {
		n := fmt.Sprintf("n%d", i)
		nodes = append(nodes, n)
		add(planOp{Kind: "node", Node: n})
		for _, p := range pls {
			if g.IntN(12) == 0 {
				continue // this plugin does not offer the node
			}
			c := 0
			switch capKind {
			case 0:
				c = 1 + g.IntN(4)
			case 1:
				c = 1 + g.IntN(30)
			case 2:
				c = 1 + g.IntN(8)
				if g.IntN(3) == 0 {
					c = math.MaxInt64
				}
			default:
				c = eq
			}
			add(planOp{Kind: "answer", Plugin: p, Node: n, Cap: c, Usage: float64(g.IntN(100)) / 100, Rate: float64(1+g.IntN(40)) / 100})
		}
		if g.IntN(2) == 0 {
			add(planOp{Kind: "workload", Node: n, N: 1 + g.IntN(4)})
		}
		if g.IntN(6) == 0 {
			add(planOp{Kind: "marker", Node: n, N: 1 + g.IntN(3)})
		}
	}
	// the rarely used plugin whitelist of the node resource check: it must not reach into
	// what later capacity questions see
	var whitelist []string
	if property == "C09" && np >= 2 && g.IntN(4) == 0 {
		whitelist = pls[1+g.IntN(np-1):]
	}
	nq := 2 + g.IntN(5)
	for i := 0; i < nq; i++ {
		q := planOp{Kind: "query", Strategy: planStrategies[g.IntN(len(planStrategies))], Repeat: 1 + g.IntN(3)}
		if property == "C09" {
			q.Repeat = 2 + g.IntN(3)
		}
		switch g.IntN(4) {
		case 0:
			q.Count = 1
		case 1:
			q.Count = 1 + g.IntN(5)
		case 2:
			q.Count = 1 + g.IntN(40)
		default:
			q.Count = 1 + g.IntN(12)
		}
		if g.IntN(2) == 0 {
			q.Limit = 1 + g.IntN(6)
		}
		if g.IntN(4) == 0 {
			for _, n := range nodes {
				if g.IntN(2) == 0 {
					q.Includes = append(q.Includes, n)
				}
			}
		}
		add(q)
		if len(whitelist) > 0 && g.IntN(2) == 0 {
			add(planOp{Kind: "node_info", Node: pick(g, nodes)})
		}
		// answers may change between queries
		if g.IntN(3) == 0 {
			add(planOp{Kind: "answer", Plugin: pick(g, pls), Node: pick(g, nodes), Cap: 1 + g.IntN(10), Usage: float64(g.IntN(100)) / 100, Rate: float64(1+g.IntN(40)) / 100})
		}
	}
	plan := simrt.Plan{Policy: []string{"fifo", "random", "sticky", "pct"}[g.IntN(4)], CrashAt: -1, MapSeed: g.Uint64() | 1}
	if g.IntN(4) == 0 {
		plan.ErrAt = []int{g.IntN(25 * nq)} // one failing plugin / store / lock call somewhere in the queries
	}
	return &Case{Plan: plan, Cfg: mustJSON(map[string][]string{"whitelist": whitelist}), Ops: ops}
}

type planAnswer struct {
	Cap         int
	Usage, Rate float64
}

// simPlugin is one simulated resource plugin: only the capacity query is ever reached
// by CalculateCapacity; everything else panics (embedded nil interface).
type simPlugin struct {
	plugins.Plugin
	name    string
	weight  float64
	ans     map[string]planAnswer
	sim     *simrt.Sim
	inst    *simrt.Instance
	asked   []string // node names of the latest query
	answers int
}

func (p *simPlugin) Name() string { return p.name }

func (p *simPlugin) GetNodeResourceInfo(ctx context.Context, nodename string, _ []plugintypes.WorkloadResource) (*plugintypes.GetNodeResourceInfoResponse, error) {
	if err := p.sim.Seam(p.inst, "plugin-"+p.name, "GetNodeResourceInfo", true); err != nil {
		return nil, err
	}
	return &plugintypes.GetNodeResourceInfoResponse{Capacity: plugintypes.NodeResource{}, Usage: plugintypes.NodeResource{}, Diffs: []string{}}, nil
}

func (p *simPlugin) GetNodesDeployCapacity(ctx context.Context, nodenames []string, _ plugintypes.WorkloadResourceRequest) (*plugintypes.GetNodesDeployCapacityResponse, error) {
	if err := p.sim.Seam(p.inst, "plugin-"+p.name, "GetNodesDeployCapacity", true); err != nil {
		return nil, err
	}
	p.asked = append([]string{}, nodenames...)
	p.answers++
	resp := &plugintypes.GetNodesDeployCapacityResponse{NodeDeployCapacityMap: map[string]*plugintypes.NodeDeployCapacity{}}
	for _, n := range nodenames {
		a, ok := p.ans[n]
		if !ok {
			continue
		}
		resp.NodeDeployCapacityMap[n] = &plugintypes.NodeDeployCapacity{Capacity: a.Cap, Usage: a.Usage, Rate: a.Rate, Weight: p.weight}
		if a.Cap == math.MaxInt64 || resp.Total == math.MaxInt64 {
			resp.Total = math.MaxInt64
		} else {
			resp.Total += a.Cap
		}
	}
	return resp, nil
}

// planCall is one invocation of a strategy function as the real code made it.
type planCall struct {
	Strategy           string
	Infos              []strategy.Info
	Need, Total, Limit int
	Result             map[string]int
	Err                error
}

var origPlans = func() map[string]func(context.Context, []strategy.Info, int, int, int) (map[string]int, error) {
	m := map[string]func(context.Context, []strategy.Info, int, int, int) (map[string]int, error){}
	for _, k := range sortedKeys(strategy.Plans) {
		m[k] = strategy.Plans[k]
	}
	return m
}()

func satAdd(a, b int) int {
	if a == math.MaxInt64 || b == math.MaxInt64 || a > math.MaxInt64-b {
		return math.MaxInt64
	}
	return a + b
}

func closeTo(a, b float64) bool {
	return math.Abs(a-b) <= 1e-9*math.Max(1, math.Max(math.Abs(a), math.Abs(b)))
}

func fmtInfos(infos []strategy.Info) string {
	cp := append([]strategy.Info{}, infos...)
	sort.Slice(cp, func(i, j int) bool { return cp[i].Nodename < cp[j].Nodename })
	var parts []string
	for _, i := range cp {
		c := fmt.Sprint(i.Capacity)
		if i.Capacity == math.MaxInt64 {
			c = "unlimited"
		}
		parts = append(parts, fmt.Sprintf("%s{cap=%s count=%d usage=%.6g rate=%.6g}", i.Nodename, c, i.Count, i.Usage, i.Rate))
	}
	return strings.Join(parts, " ")
}

func (planH) Execute(c *Case, res *Result) {
	sim := simrt.New(c.Seed, c.Plan)
	sim.KeepTrace = traceWanted
	zerolog.SetGlobalLevel(zerolog.Disabled)
	verifrt.Permute = sim.Permute
	defer func() { verifrt.Permute = nil }()
	var ops []planOp
	for _, raw := range c.Ops {
		var op planOp
		_ = json.Unmarshal(raw, &op)
		ops = append(ops, op)
	}
	seen := map[string]bool{}
	cur, opIndex := "", 0
	viol := func(p, rule, sig, detail string) {
		if seen[p+rule+sig] {
			return
		}
		seen[p+rule+sig] = true
		res.Violations = append(res.Violations, Violation{Property: p, Rule: rule, Sig: sig, Detail: detail + " [" + cur + "]", OpIndex: opIndex, Step: sim.Stats.Steps})
	}
	// record every strategy invocation made by the real code
	var calls []planCall
	for _, name := range sortedKeys(origPlans) {
		name, orig := name, origPlans[name]
		strategy.Plans[name] = func(ctx context.Context, infos []strategy.Info, need, total, limit int) (map[string]int, error) {
			in := append([]strategy.Info{}, infos...)
			r, err := orig(ctx, infos, need, total, limit)
			calls = append(calls, planCall{Strategy: name, Infos: in, Need: need, Total: total, Limit: limit, Result: r, Err: err})
			return r, err
		}
	}
	defer func() {
		for _, name := range sortedKeys(origPlans) {
			strategy.Plans[name] = origPlans[name]
		}
	}()
	sim.Go(func() {
		ctx := context.Background()
		inst := sim.NewInstance()
		cfg := coretypes.Config{LockTimeout: 30 * time.Second, GlobalTimeout: 300 * time.Second, ConnectionTimeout: 10 * time.Second, MaxConcurrency: 100000, Store: "etcd"}
		cfg.Etcd.LockPrefix = "/lock"
		cfg.WALOpenTimeout = 8 * time.Second
		var pcfg struct {
			Whitelist []string `json:"whitelist"`
		}
		_ = json.Unmarshal(c.Cfg, &pcfg)
		if len(pcfg.Whitelist) > 0 {
			cfg.ResourcePlugin.Whitelist = pcfg.Whitelist
		}
		base := "/dev/shm"
		if st, err := os.Stat(base); err != nil || !st.IsDir() {
			base = os.TempDir()
		}
		tmp, _ := os.MkdirTemp(base, "verif-plan-")
		defer os.RemoveAll(tmp)
		cfg.WALFile = filepath.Join(tmp, "core.wal")
		esrv := simetcd.NewServer(sim, "etcd")
		eh := esrv.NewClient(inst, "etcd")
		defer eh.Close()
		merc, err := etcdv3.NewWithKV(cfg, meta.NewETCDWithClient(eh.Client, cfg.Etcd))
		if err != nil {
			res.Harness = err.Error()
			return
		}
		enginefactory.ResetEngineCacheForVerif(cfg, merc)
		mgr, _ := cobalt.New(cfg)
		cal, err := calcium.NewForVerif(ctx, cfg, merc, mgr, false, nil)
		if err != nil {
			res.Harness = err.Error()
			return
		}
		sim.SetFaultsEnabled(false)
		if _, err := merc.AddPod(ctx, planPod, ""); err != nil {
			res.Harness = err.Error()
			return
		}
		var pls []*simPlugin
		plByName := map[string]*simPlugin{}
		nodeSet := map[string]bool{}
		counts := map[string]int{} // model: instances of the application entrypoint per node
		wlSeq := 0
		for i, op := range ops {
			opIndex = i
			cur = fmt.Sprintf("op#%d %s", i, string(c.Ops[i]))
			switch op.Kind {
			case "plugin":
				if plByName[op.Plugin] != nil || op.Weight <= 0 {
					continue
				}
				p := &simPlugin{name: op.Plugin, weight: op.Weight, ans: map[string]planAnswer{}, sim: sim, inst: inst}
				plByName[op.Plugin] = p
				pls = append(pls, p)
				mgr.AddPlugins(p)
			case "node":
				if nodeSet[op.Node] {
					continue
				}
				if _, err := merc.AddNode(ctx, &coretypes.AddNodeOptions{Nodename: op.Node, Endpoint: "mock://" + op.Node, Podname: planPod}); err != nil {
					res.Harness = "add node: " + err.Error()
					return
				}
				if err := merc.SetNodeStatus(ctx, &coretypes.Node{NodeMeta: coretypes.NodeMeta{Name: op.Node, Podname: planPod}}, 36000); err != nil {
					res.Harness = "node status: " + err.Error()
					return
				}
				nodeSet[op.Node] = true
			case "answer":
				if p := plByName[op.Plugin]; p != nil && op.Cap >= 1 {
					p.ans[op.Node] = planAnswer{Cap: op.Cap, Usage: op.Usage, Rate: op.Rate}
				}
			case "workload":
				if !nodeSet[op.Node] {
					continue
				}
				for k := 0; k < op.N; k++ {
					wlSeq++
					wl := &coretypes.Workload{ID: fmt.Sprintf("w%04d", wlSeq), Name: utils.MakeWorkloadName(planApp, planEntry, fmt.Sprintf("i%d", wlSeq)), Podname: planPod, Nodename: op.Node}
					if err := merc.AddWorkload(ctx, wl, nil); err != nil {
						res.Harness = "add workload: " + err.Error()
						return
					}
					counts[op.Node]++
				}
			case "node_info":
				if nodeSet[op.Node] {
					sim.SetFaultsEnabled(false)
					_, _, _, err := mgr.GetNodeResourceInfo(ctx, op.Node, nil, false)
					if err != nil {
						res.Harness = "node info: " + err.Error()
						return
					}
					res.Probes["node_info_with_plugin_whitelist"]++
				}
			case "marker":
				if !nodeSet[op.Node] {
					continue
				}
				wlSeq++
				if err := merc.CreateProcessing(ctx, &coretypes.Processing{Appname: planApp, Entryname: planEntry, Nodename: op.Node, Ident: fmt.Sprintf("m%d", wlSeq)}, op.N); err != nil {
					res.Harness = "marker: " + err.Error()
					return
				}
				counts[op.Node] += op.N
			case "query":
				if len(pls) == 0 || len(nodeSet) == 0 {
					continue
				}
				var firstInfos map[string]strategy.Info
				for rep := 0; rep < max(1, op.Repeat); rep++ {
					calls = calls[:0]
					opts := &coretypes.DeployOptions{Name: planApp, Entrypoint: &coretypes.Entrypoint{Name: planEntry}, Podname: planPod, Image: "img",
						Count: op.Count, NodesLimit: op.Limit, DeployStrategy: op.Strategy, NodeFilter: &coretypes.NodeFilter{Podname: planPod, Includes: op.Includes}}
					sim.SetFaultsEnabled(true)
					before := sim.Stats.ErrFired
					answersBefore := pls[0].answers
					msg, err := cal.CalculateCapacity(ctx, opts)
					sim.SetFaultsEnabled(false)
					sim.Settle()
					res.OpsRun++
					res.Probes["query"]++
					res.Probes["query_"+op.Strategy]++
					if sim.Stats.ErrFired != before {
						// a failed plugin, store or lock call: the request may be refused; if it is
						// answered all the same (e.g. only an unlock failed) the answer has to be right
						res.Probes["query_with_injected_failure"]++
						if err != nil {
							res.Probes["query_refused_after_injected_failure"]++
							continue
						}
					}
					// ---- reference merge (C09) from what the plugins were asked ----
					asked := pls[0].asked
					type refInfo struct {
						cap         int
						usage, rate float64
					}
					ref := map[string]refInfo{}
					refTotal := 0
					for _, n := range asked {
						ok, capMin, wsum, usum, rsum := true, math.MaxInt64, 0.0, 0.0, 0.0
						for _, p := range pls {
							a, has := p.ans[n]
							if !has {
								ok = false
								break
							}
							capMin = min(capMin, a.Cap)
							wsum += p.weight
							usum += p.weight * a.Usage
							rsum += p.weight * a.Rate
						}
						if ok {
							ref[n] = refInfo{capMin, usum / wsum, rsum / wsum}
							refTotal = satAdd(refTotal, capMin)
						}
					}
					plugKind := "one-plugin"
					if len(pls) > 1 {
						plugKind = "several-plugins"
					}
					if op.Strategy == strategy.Dummy {
						if err == nil {
							got := map[string]int{}
							for _, n := range sortedKeys(msg.NodeCapacities) {
								got[n] = msg.NodeCapacities[n]
							}
							want := map[string]int{}
							for _, n := range sortedKeys(ref) {
								want[n] = ref[n].cap
							}
							if fmtCounts(got) != fmtCounts(want) || msg.Total != refTotal {
								viol("C09", "capacity-not-minimum-of-plugins", plugKind, fmt.Sprintf("DUMMY capacity {%s} total %d, the plugins' answers give {%s} total %d", fmtCounts(got), msg.Total, fmtCounts(want), refTotal))
							}
							res.Probes["dummy_checked"]++
							res.Nontrivial = true
						} else if refTotal > 0 {
							viol("C09", "capacity-refused", plugKind, fmt.Sprintf("DUMMY capacity refused (%v) although the plugins jointly offer {%d}", err, refTotal))
						}
						continue
					}
					if len(calls) != 1 {
						if err == nil {
							res.Harness = fmt.Sprintf("query returned without exactly one strategy call (%d)", len(calls))
							return
						}
						if len(calls) == 0 && pls[0].answers != answersBefore && sim.Stats.ErrFired == before {
							// the plugins were asked, nothing failed, and the request was refused without
							// any strategy being consulted: that refusal has to be justified by the
							// strategy's own rule all the same (C02)
							var infos []strategy.Info
							for _, n := range sortedKeys(ref) {
								infos = append(infos, strategy.Info{Nodename: n, Capacity: ref[n].cap, Usage: ref[n].usage, Rate: ref[n].rate, Count: counts[n]})
							}
							res.Probes["refused_before_planning"]++
							checkPlan(planCall{Strategy: op.Strategy, Infos: infos, Need: op.Count, Total: refTotal, Limit: op.Limit, Err: err}, msg, err, viol, res)
						}
						continue // refused before planning (e.g. no node passed the filter)
					}
					call := calls[0]
					res.Nontrivial = true
					// ---- C09: what the strategy was handed is the reference merge ----
					infos := map[string]strategy.Info{}
					for _, in := range call.Infos {
						infos[in.Nodename] = in
					}
					if len(infos) != len(call.Infos) {
						viol("C01", "duplicate-candidate", op.Strategy, "the strategy was handed the same node twice: "+fmtInfos(call.Infos))
					}
					var refNames, gotNames []string
					for _, n := range sortedKeys(ref) {
						refNames = append(refNames, n)
					}
					for _, n := range sortedKeys(infos) {
						gotNames = append(gotNames, n)
					}
					if strings.Join(refNames, ",") != strings.Join(gotNames, ",") {
						viol("C09", "offered-set-not-intersection", plugKind, fmt.Sprintf("nodes offered to the strategy %v, nodes every plugin offers %v", gotNames, refNames))
					} else {
						for _, n := range refNames {
							r, in := ref[n], infos[n]
							if in.Capacity != r.cap {
								viol("C09", "capacity-not-minimum-of-plugins", plugKind, fmt.Sprintf("node %s capacity %d, minimum of the plugins' capacities %d", n, in.Capacity, r.cap))
							}
							if !closeTo(in.Usage, r.usage) || !closeTo(in.Rate, r.rate) {
								viol("C09", "not-weighted-average", plugKind, fmt.Sprintf("node %s usage %.9g rate %.9g, weight-averaged plugin values are usage %.9g rate %.9g (plugin weights %s)", n, in.Usage, in.Rate, r.usage, r.rate, fmtWeights(pls)))
							}
							if in.Count != counts[n] {
								viol("C01", "count-wrong", op.Strategy, fmt.Sprintf("node %s is said to run %d instances, %d are recorded or in progress", n, in.Count, counts[n]))
							}
						}
						if call.Total != refTotal {
							viol("C09", "total-not-saturating-sum", plugKind, fmt.Sprintf("total %d, saturating sum of the merged capacities %d", call.Total, refTotal))
						}
						res.Probes["merge_checked"]++
						if len(pls) > 1 {
							res.Probes["merge_checked_several_plugins"]++
						}
					}
					// ---- C09: the same question gives the same answer whatever the orders were ----
					if rep == 0 {
						firstInfos = infos
					} else if firstInfos != nil {
						res.Probes["repeated_query_compared"]++
						same := len(firstInfos) == len(infos)
						for _, n := range sortedKeys(infos) {
							a, ok := firstInfos[n]
							b := infos[n]
							if !ok || a.Capacity != b.Capacity || !closeTo(a.Usage, b.Usage) || !closeTo(a.Rate, b.Rate) {
								same = false
							}
						}
						if !same {
							viol("C09", "order-dependent", plugKind, fmt.Sprintf("the same capacity question answered differently within one state:\n   first : %s\n   now   : %s", fmtInfos(mapInfos(firstInfos)), fmtInfos(call.Infos)))
						}
					}
					// ---- C01 / C02 / C03: candidates as the real code handed them over, count and
					// limit as the *request* gave them (what is planned has to answer the request) ----
					if call.Need != op.Count || call.Limit != op.Limit {
						res.Probes["strategy_consulted_with_other_count_or_limit"]++
					}
					call.Need, call.Limit = op.Count, op.Limit
					if strings.Join(refNames, ",") != strings.Join(gotNames, ",") {
						// candidates withheld from (or invented for) the strategy function between the
						// merge and the plan: the plan still has to answer the request over the nodes
						// every plugin offers, so it is judged over the reference candidates
						res.Probes["plan_judged_over_reference_candidates"]++
						call.Infos = nil
						for _, n := range refNames {
							r := ref[n]
							call.Infos = append(call.Infos, strategy.Info{Nodename: n, Usage: r.usage, Rate: r.rate, Capacity: r.cap, Count: counts[n]})
						}
					}
					checkPlan(call, msg, err, viol, res)
				}
			}
		}
	})
	sim.Run(nil, 3*time.Hour)
	sim.Finish()
	if sim.Stuck {
		res.Stuck = sim.StuckWhy
	}
	res.Stats = sim.Stats
	res.TraceHash = sim.TraceHash()
	res.Trace = sim.Trace
	sim.Stop()
}

func mapInfos(m map[string]strategy.Info) []strategy.Info {
	var out []strategy.Info
	for _, n := range sortedKeys(m) {
		out = append(out, m[n])
	}
	return out
}

func fmtWeights(pls []*simPlugin) string {
	var parts []string
	for _, p := range pls {
		parts = append(parts, fmt.Sprintf("%s=%g", p.name, p.weight))
	}
	return strings.Join(parts, " ")
}

// checkPlan holds one strategy call against the rules of C01 (shape), C02 (refusal iff
// infeasible) and C03 (balancing).
func checkPlan(call planCall, msg *coretypes.CapacityMessage, apiErr error, viol func(p, rule, sig, detail string), res *Result) {
	st := call.Strategy
	infos := map[string]strategy.Info{}
	for _, in := range call.Infos {
		infos[in.Nodename] = in
	}
	names := sortedKeys(infos)
	need, limit := call.Need, call.Limit
	desc := fmt.Sprintf("%s need %d limit %d total %d over %s", st, need, limit, call.Total, fmtInfos(call.Infos))
	// ---- C02: feasibility under the strategy's rule ----
	feasible := false
	L := limit
	if L == 0 {
		L = len(names)
	}
	switch st {
	case strategy.Auto:
		sum := 0
		for _, n := range names {
			c := infos[n].Capacity
			if limit > 0 {
				c = min(c, max(0, limit-infos[n].Count))
			}
			sum = satAdd(sum, c)
		}
		feasible = sum >= need
	case strategy.Global, strategy.Drained:
		sum := 0
		for _, n := range names {
			sum = satAdd(sum, infos[n].Capacity)
		}
		feasible = sum >= need
	case strategy.Each:
		k := 0
		for _, n := range names {
			if infos[n].Capacity >= need {
				k++
			}
		}
		feasible = L >= 1 && len(names) >= L && k >= L
	case strategy.Fill:
		k := 0
		for _, n := range names {
			if satAdd(infos[n].Count, infos[n].Capacity) >= need {
				k++
			}
		}
		feasible = L >= 1 && len(names) >= L && k >= L
	}
	planned := 0
	for _, n := range sortedKeys(call.Result) {
		planned += call.Result[n]
	}
	if call.Err != nil {
		res.Probes["plan_refused"]++
		// FILL refuses legitimately (nothing to do) when the L nodes it would select - the
		// eligible ones with the most instances - are all at the level already
		alreadyFilled := false
		if st == strategy.Fill && feasible && errors.Is(call.Err, coretypes.ErrAlreadyFilled) {
			var cs []int
			for _, n := range names {
				if satAdd(infos[n].Count, infos[n].Capacity) >= need {
					cs = append(cs, infos[n].Count)
				}
			}
			sort.Sort(sort.Reverse(sort.IntSlice(cs)))
			alreadyFilled = len(cs) >= L && cs[L-1] >= need
		}
		if feasible && !alreadyFilled {
			viol("C02", "refused-although-feasible", st, fmt.Sprintf("refused (%v) although a plan exists: %s", call.Err, desc))
		}
		if !feasible {
			res.Probes["plan_refused_infeasible"]++
		}
		if planned != 0 {
			viol("C02", "refused-but-planned", st, fmt.Sprintf("refused (%v) and still planned %v: %s", call.Err, call.Result, desc))
		}
		if apiErr == nil || (msg != nil && (len(msg.NodeCapacities) != 0 || msg.Total != 0)) {
			viol("C02", "refusal-not-propagated", st, fmt.Sprintf("the strategy refused (%v) but CalculateCapacity answered %v / %v", call.Err, msg, apiErr))
		}
		return
	}
	res.Probes["plan_produced"]++
	res.Probes["plan_produced_"+st]++
	if !feasible {
		viol("C02", "planned-although-infeasible", st, fmt.Sprintf("planned %s although the nodes cannot accommodate the request: %s", fmtCounts(call.Result), desc))
	}
	// the API hands the plan on unchanged
	if apiErr != nil || msg == nil || fmtCounts(msg.NodeCapacities) != fmtCounts(call.Result) || msg.Total != planned {
		viol("C01", "plan-not-handed-on", st, fmt.Sprintf("strategy planned {%s}, CalculateCapacity answered %v / %v", fmtCounts(call.Result), msg, apiErr))
	}
	// ---- C01: shape ----
	selected := 0
	for _, n := range sortedKeys(call.Result) {
		k := call.Result[n]
		in, ok := infos[n]
		if !ok {
			viol("C01", "node-not-a-candidate", st, fmt.Sprintf("plan names %s which is not a candidate: %s -> {%s}", n, desc, fmtCounts(call.Result)))
			continue
		}
		if k < 0 || k > in.Capacity {
			viol("C01", "beyond-capacity", st, fmt.Sprintf("node %s gets %d, capacity %d: %s -> {%s}", n, k, in.Capacity, desc, fmtCounts(call.Result)))
		}
		if k > 0 {
			selected++
		}
		if st == strategy.Auto && limit > 0 && k > 0 && in.Count+k > limit {
			viol("C01", "node-limit-exceeded", st, fmt.Sprintf("node %s ends with %d instances, limit %d: %s -> {%s}", n, in.Count+k, limit, desc, fmtCounts(call.Result)))
		}
	}
	switch st {
	case strategy.Auto, strategy.Global, strategy.Drained:
		if planned != need {
			viol("C01", "total-not-requested-count", st, fmt.Sprintf("planned %d, requested %d: %s -> {%s}", planned, need, desc, fmtCounts(call.Result)))
		}
	case strategy.Each:
		if len(call.Result) != L {
			viol("C01", "each-wrong-number-of-nodes", st, fmt.Sprintf("plan covers %d nodes, must cover %d: %s -> {%s}", len(call.Result), L, desc, fmtCounts(call.Result)))
		}
		for _, n := range sortedKeys(call.Result) {
			if call.Result[n] != need {
				viol("C01", "each-wrong-count", st, fmt.Sprintf("node %s gets %d, requested %d per node: %s", n, call.Result[n], need, desc))
			}
		}
	case strategy.Fill:
		if len(call.Result) != L {
			viol("C01", "fill-wrong-number-of-nodes", st, fmt.Sprintf("plan covers %d nodes, must cover %d: %s -> {%s}", len(call.Result), L, desc, fmtCounts(call.Result)))
		}
		for _, n := range sortedKeys(call.Result) {
			if in, ok := infos[n]; ok && call.Result[n] != max(need-in.Count, 0) {
				viol("C01", "fill-wrong-level", st, fmt.Sprintf("node %s with %d instances gets %d, level %d: %s", n, in.Count, call.Result[n], need, desc))
			}
		}
	}
	// ---- C03: balancing rule ----
	for _, i := range names {
		ni := call.Result[i]
		ii := infos[i]
		_, selI := call.Result[i]
		for _, j := range names {
			if i == j {
				continue
			}
			nj := call.Result[j]
			ij := infos[j]
			_, selJ := call.Result[j]
			switch st {
			case strategy.Auto:
				eligibleJ := ij.Capacity-nj > 0 && (limit == 0 || ij.Count+nj < limit)
				if ni > 0 && eligibleJ && ii.Count+ni > ij.Count+nj+1 {
					viol("C03", "auto-uneven", st, fmt.Sprintf("node %s ends with %d instances, node %s which could still take one with %d: %s -> {%s}", i, ii.Count+ni, j, ij.Count+nj, desc, fmtCounts(call.Result)))
				}
			case strategy.Global:
				fi := ii.Usage + float64(ni)*ii.Rate
				fj := ij.Usage + float64(nj)*ij.Rate
				if ni > 0 && ij.Capacity-nj > 0 && fi > fj+ij.Rate+1e-9 {
					viol("C03", "global-uneven", st, fmt.Sprintf("node %s ends at usage %.6g, node %s with spare capacity at %.6g (+%.6g per instance): %s -> {%s}", i, fi, j, fj, ij.Rate, desc, fmtCounts(call.Result)))
				}
			case strategy.Drained:
				if ni > 0 && ij.Capacity < ii.Capacity && nj != ij.Capacity {
					viol("C03", "drained-larger-node-used-first", st, fmt.Sprintf("node %s (capacity %d) gets %d while the smaller node %s (capacity %d) is not full (%d): %s -> {%s}", i, ii.Capacity, ni, j, ij.Capacity, nj, desc, fmtCounts(call.Result)))
				}
			case strategy.Each:
				if selI && !selJ && ii.Capacity < ij.Capacity {
					viol("C03", "each-not-most-capacity", st, fmt.Sprintf("node %s (capacity %d) selected, node %s (capacity %d) not: %s -> {%s}", i, ii.Capacity, j, ij.Capacity, desc, fmtCounts(call.Result)))
				}
			case strategy.Fill:
				eligibleJ := satAdd(ij.Count, ij.Capacity) >= need
				if selI && !selJ && eligibleJ && ii.Count < ij.Count {
					viol("C03", "fill-not-most-instances", st, fmt.Sprintf("node %s (%d instances) selected, eligible node %s (%d instances) not: %s -> {%s}", i, ii.Count, j, ij.Count, desc, fmtCounts(call.Result)))
				}
			}
		}
	}
	res.Probes["balance_checked"]++
}
