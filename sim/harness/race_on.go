//go:build race

package harness

const raceBuild = true
