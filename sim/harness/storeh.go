package harness

import (
	"context"
	"encoding/json"
	"fmt"
	"math/rand/v2"
	"sort"
	"strings"
	"sync"
	"time"

	"github.com/projecteru2/core/engine"
	enginefactory "github.com/projecteru2/core/engine/factory"
	enginetypes "github.com/projecteru2/core/engine/types"
	"github.com/projecteru2/core/store"
	"github.com/projecteru2/core/store/etcdv3"
	"github.com/projecteru2/core/store/etcdv3/meta"
	coretypes "github.com/projecteru2/core/types"
	"github.com/projecteru2/core/utils"
	"github.com/projecteru2/core/verifrt"
	"github.com/rs/zerolog"

	"verif/sim/simengine"
	"verif/sim/simetcd"
	"verif/sim/simredis"
	"verif/sim/simrt"
)

// ---------------------------------------------------------------------------
// H-store (C23, C24, C25): the same sequence of Store-interface calls is executed
// against Mercury/simetcd and Rediaron/simredis inside one bubble; outcomes and the full
// read-back are compared with each other and with a plain reference model.
// ---------------------------------------------------------------------------

type storeOp struct {
	Kind   string            `json:"kind"`
	Pod    string            `json:"pod,omitempty"`
	Node   string            `json:"node,omitempty"`
	App    string            `json:"app,omitempty"`
	Entry  string            `json:"entry,omitempty"`
	ID     string            `json:"id,omitempty"`
	Labels map[string]string `json:"labels,omitempty"`
	TTL    int64             `json:"ttl,omitempty"`
	Count  int               `json:"count,omitempty"`
	Limit  int64             `json:"limit,omitempty"`
	Secs   int               `json:"secs,omitempty"`
	Flag   bool              `json:"flag,omitempty"`
	Val    bool              `json:"val,omitempty"`
	Cert   bool              `json:"cert,omitempty"`
}

type storeH struct{}

func init() { Register("store", storeH{}) }

var (
	stPods    = []string{"p0", "p1"}
	stNodes   = []string{"n0", "n1", "n2"}
	stApps    = []string{"app", "web"}
	stEntries = []string{"main", "api"}
	// names the request validation accepts and that contain separators or glob characters
	stAppsP    = []string{"a", "ab", "a_b", "a_b_c", "b", "a__b", "_a", "a_"}
	stEntriesP = []string{"b", "bc", "c", "b-c", "_b", "b_c"} // the last two must be refused by request validation
	stNodesP   = []string{"n1", "n10", "n1x", "n"}
	stAppsS    = []string{"a", "a_b", "a/b", "b"}
	stEntriesS = []string{"b", "c", "b/c"}
	stNodesS   = []string{"n0", "n1", "n/1"}
	stAppsG    = []string{"a", "ab", "a*", "a[b]", "a?"}
	stEntriesG = []string{"b", "bc", "b*"}
	stNodesG   = []string{"n0", "n1", "n*"}
	stIDs      = []string{"w0", "w1", "w2", "w3", "w4", "w5"}
)

func pick(g *rand.Rand, xs []string) string { return xs[g.IntN(len(xs))] }

func (storeH) Generate(property string, seed uint64, tier string) *Case {
	g := rand.New(rand.NewPCG(seed, 0x570e))
	apps, entries, nodes := stApps, stEntries, stNodes
	if property == "C24" {
		// three universes: names that are prefixes of each other or contain '_' (every
		// query must be exact there), names with the key separator, names with glob characters
		switch seed % 4 {
		case 0, 1:
			apps, entries, nodes = stAppsP, stEntriesP, stNodesP
		case 2:
			apps, entries, nodes = stAppsS, stEntriesS, stNodesS
		default:
			apps, entries, nodes = stAppsG, stEntriesG, stNodesG
		}
	}
	ids := stIDs
	if property == "C25" {
		// few entities, so that reports, refreshes, removals and time passing meet
		nodes, apps, entries, ids = stNodes[:2], stApps[:1], stEntries[:1], stIDs[:3]
	}
	n := 8 + g.IntN(16)
	var ops []json.RawMessage
	lbl := func() map[string]string {
		if g.IntN(3) == 0 {
			return map[string]string{"zone": fmt.Sprintf("z%d", g.IntN(2))}
		}
		return nil
	}
	// most histories start from a populated store
	if g.IntN(4) != 0 {
		ops = append(ops, mustJSON(storeOp{Kind: "add_pod", Pod: "p0"}))
		for _, nd := range nodes[:1+g.IntN(len(nodes))] {
			ops = append(ops, mustJSON(storeOp{Kind: "add_node", Pod: "p0", Node: nd, Labels: lbl()}))
			ops = append(ops, mustJSON(storeOp{Kind: "set_node_status", Node: nd, TTL: 3600}))
		}
	}
	mkList := func(op *storeOp) {
		op.Kind, op.Limit = "list_workloads", int64(g.IntN(3))
		if g.IntN(3) == 0 {
			op.Node = ""
		}
		if g.IntN(4) == 0 {
			op.Entry, op.Node = "", ""
		}
		op.Labels = lbl()
	}
	if property == "C24" {
		for k := 0; k < 1+g.IntN(2); k++ {
			w := storeOp{Kind: "watch_status", App: pick(g, apps), Entry: pick(g, entries), Node: pick(g, nodes)}
			switch g.IntN(4) {
			case 0:
				w.Node = ""
			case 1:
				w.Entry, w.Node = "", ""
			}
			ops = append(ops, mustJSON(w))
		}
	}
	if property == "C13" {
		// the marker protocol of deployments (see storeh13.go), mixed with plain records
		n = 3 + g.IntN(5)
		for i := 0; i < n; i++ {
			op := storeOp{Pod: "p0", Node: pick(g, nodes), App: pick(g, apps), Entry: pick(g, entries), ID: pick(g, ids)}
			switch g.IntN(6) {
			case 0:
				op.Kind = "add_workload"
			case 1:
				op.Kind = "remove_workload"
			default:
				op.Kind, op.ID, op.Count = "deploy_seq", fmt.Sprintf("d%d", i), 1+g.IntN(3)
				if g.IntN(2) == 0 {
					op.TTL = int64(g.IntN(8)) // which instances fail
					op.Flag = g.IntN(2) == 0  // ... before (true) or after they were recorded
				}
			}
			ops = append(ops, mustJSON(op))
		}
		return &Case{Plan: simrt.Plan{Policy: "fifo", CrashAt: -1}, Cfg: mustJSON(map[string]string{"names": property}), Ops: ops}
	}
	for i := 0; i < n; i++ {
		op := storeOp{Pod: pick(g, stPods), Node: pick(g, nodes), App: pick(g, apps), Entry: pick(g, entries), ID: pick(g, ids)}
		x := g.IntN(100)
		switch {
		case x < 5:
			op.Kind = "add_pod"
		case x < 8:
			op.Kind = "remove_pod"
		case x < 15:
			op.Kind, op.Labels, op.Cert = "add_node", lbl(), g.IntN(4) == 0
		case x < 19:
			op.Kind = "remove_node"
		case x < 23:
			op.Kind, op.Labels, op.Flag = "update_node", lbl(), g.IntN(2) == 0
		case x < 32:
			op.Kind, op.TTL = "set_node_status", []int64{-1, 3, 10, 30, 3600}[g.IntN(5)]
		case x < 50:
			op.Kind, op.Labels, op.Flag = "add_workload", lbl(), g.IntN(3) == 0
		case x < 54:
			op.Kind, op.Labels, op.Flag = "update_workload", lbl(), g.IntN(3) == 0
		case x < 62:
			op.Kind = "remove_workload"
		case x < 74:
			op.Kind, op.TTL, op.Val = "set_workload_status", []int64{0, 3, 10, 30}[g.IntN(4)], g.IntN(2) == 0
		case x < 78:
			op.Kind, op.Count = "create_processing", 1+g.IntN(3)
		case x < 81:
			op.Kind = "delete_processing"
		case x < 90:
			op.Kind, op.Secs = "advance", []int{1, 2, 4, 9, 11, 31}[g.IntN(6)]
		case x < 93:
			mkList(&op)
		case x < 95:
			op.Kind = "nodes_by_pod"
			op.Labels, op.Flag = lbl(), g.IntN(2) == 0
			if g.IntN(3) == 0 {
				op.Pod = ""
			}
		case x < 97:
			op.Kind = "get_workloads"
		default:
			op.Kind = "deploy_status"
		}
		if property == "C25" {
			switch op.Kind {
			case "list_workloads", "nodes_by_pod", "get_workloads", "deploy_status", "create_processing", "delete_processing", "update_workload", "add_pod", "remove_pod":
				switch g.IntN(3) {
				case 0:
					op.Kind, op.TTL = "set_node_status", []int64{-1, 3, 10, 30}[g.IntN(4)]
				case 1:
					op.Kind, op.TTL, op.Val = "set_workload_status", []int64{0, 3, 10, 30}[g.IntN(4)], g.IntN(3) != 0
				default:
					op.Kind, op.Secs = "advance", []int{1, 2, 4, 9, 11, 31}[g.IntN(6)]
				}
			}
		}
		if property == "C24" {
			switch op.Kind {
			case "add_workload":
				op.Flag = false
			case "add_pod", "remove_pod", "update_node", "set_node_status", "nodes_by_pod", "get_workloads":
				// more queries and status reports, fewer operations that cannot matter here
				if g.IntN(2) == 0 {
					mkList(&op)
				} else {
					op.Kind, op.TTL, op.Val = "set_workload_status", []int64{0, 30}[g.IntN(2)], g.IntN(2) == 0
				}
			}
		}
		ops = append(ops, mustJSON(op))
	}
	return &Case{Plan: simrt.Plan{Policy: "fifo", CrashAt: -1}, Cfg: mustJSON(map[string]string{"names": property}), Ops: ops}
}

type stWorkload struct {
	ID, App, Entry, Node, Name string
	Labels                    map[string]string
}

type stStatus struct {
	Val     string
	Expires time.Time // zero = never
	TTL     int64
}

// stModel is the reference model of one store.
type stModel struct {
	Pods      map[string]bool
	Nodes     map[string]string // node -> pod
	Workloads map[string]*stWorkload
	NodeSt    map[string]*stStatus
	WlSt      map[string]*stStatus
	Proc      map[string]bool // in-progress markers: "app/entry/node"
	ProcNames map[string][3]string // the same markers by their exact names
	Count     map[string]int  // reach probes
}

func stStatusKey(app, entry, node, id string) string {
	return app + "\x00" + entry + "\x00" + node + "\x00" + id
}

func remaining(s *stStatus) time.Duration {
	if s.Expires.IsZero() {
		return 0
	}
	return time.Until(s.Expires)
}

func newStModel() *stModel {
	return &stModel{Pods: map[string]bool{}, Nodes: map[string]string{}, Workloads: map[string]*stWorkload{}, NodeSt: map[string]*stStatus{}, WlSt: map[string]*stStatus{}, Proc: map[string]bool{}, ProcNames: map[string][3]string{}, Count: map[string]int{}}
}

// stWatch is one open status stream and what it has delivered.
type stWatch struct {
	app, entry, node string
	mu               sync.Mutex
	got              []string
}

type stBackend struct {
	name  string
	st    store.Store
	model *stModel
}

func errClass(err error) string {
	if err == nil {
		return "ok"
	}
	return "error"
}

func (storeH) Execute(c *Case, res *Result) {
	sim := simrt.New(c.Seed, c.Plan)
	sim.KeepTrace = traceWanted
	zerolog.SetGlobalLevel(zerolog.Disabled)
	verifrt.Permute = sim.Permute
	defer func() { verifrt.Permute = nil }()
	var ops []storeOp
	for _, raw := range c.Ops {
		var op storeOp
		_ = json.Unmarshal(raw, &op)
		ops = append(ops, op)
	}
	prop := c.Property
	seen := map[string]bool{}
	cur := ""
	opIndex := 0
	viol := func(p, rule, sig, detail string) {
		if seen[p+rule+sig] {
			return
		}
		seen[p+rule+sig] = true
		res.Violations = append(res.Violations, Violation{Property: p, Rule: rule, Sig: sig, Detail: detail + " [" + cur + "]", OpIndex: opIndex, Step: sim.Stats.Steps})
	}
	sim.Go(func() {
		ctx := context.Background()
		inst := sim.NewInstance()
		cfg := coretypes.Config{MaxConcurrency: 10000, ConnectionTimeout: 10 * time.Second}
		esrv := simetcd.NewServer(sim, "etcd")
		eh := esrv.NewClient(inst, "etcd")
		merc, err := etcdv3.NewWithKV(cfg, meta.NewETCDWithClient(eh.Client, coretypes.EtcdConfig{}))
		if err != nil {
			res.Harness = err.Error()
			return
		}
		rsrv, err := simredis.New(sim)
		if err != nil {
			res.Harness = err.Error()
			return
		}
		redi, closeRedis, err := newRediaron(rsrv, inst, "redis")
		if err != nil {
			res.Harness = err.Error()
			return
		}
		defer closeRedis()
		defer eh.Close()
		engines := map[string]*simengine.Node{}
		enginefactory.RegisterEngineForVerif("sim://", func(ctx context.Context, config coretypes.Config, nodename, endpoint, ca, cert, key string) (engine.API, error) {
			name := strings.TrimPrefix(endpoint, "sim://")
			en, ok := engines[name]
			if !ok {
				en = simengine.NewNode(name, 4, 8192*mib)
				engines[name] = en
			}
			return &simengine.Engine{N: en, Sim: sim, Inst: inst, Params: &enginetypes.Params{Nodename: nodename, Endpoint: endpoint, CA: ca, Cert: cert, Key: key}}, nil
		})
		enginefactory.ResetEngineCacheForVerif(cfg, nil)
		backends := []*stBackend{{"etcd", merc, newStModel()}, {"redis", redi, newStModel()}}
		var watches []*stWatch
		defer func() {
			for _, k := range sortedKeys(backends[0].model.Count) {
				res.Probes[k] += backends[0].model.Count[k]
			}
		}()
		for i, op := range ops {
			opIndex = i
			cur = fmt.Sprintf("op#%d %s", i, string(c.Ops[i]))
			if prop == "C24" && op.Kind == "add_workload" {
				// "for every name the API accepts": the real request validation decides
				do := &coretypes.DeployOptions{Name: op.App, Podname: "p0", Image: "img", Count: 1, Entrypoint: &coretypes.Entrypoint{Name: op.Entry}}
				if err := do.Validate(); err != nil {
					res.Probes["name_refused_by_validation"]++
					continue
				}
			}
			if op.Kind == "advance" {
				time.Sleep(time.Duration(op.Secs)*time.Second + offGrid(i%7))
				rsrv.Sync()
				res.Probes["advance"]++
			}
			if op.Kind == "watch_status" {
				// C24, "streaming their status": a status stream on the etcd store (the Redis
				// one needs keyspace notifications) that stays open for the rest of the history
				if prop == "C24" && len(watches) < 2 {
					wctx, cancel := context.WithCancel(ctx)
					defer cancel()
					sw := &stWatch{app: op.App, entry: op.Entry, node: op.Node}
					ch := merc.WorkloadStatusStream(wctx, op.App, op.Entry, op.Node, nil)
					go func() {
						for m := range ch {
							sw.mu.Lock()
							sw.got = append(sw.got, m.ID)
							sw.mu.Unlock()
						}
					}()
					watches = append(watches, sw)
					res.Probes["status_stream_opened"]++
					sim.Settle()
				}
				continue
			}
			var outs [2]string
			var errs [2]string
			pre := situationOf(backends[0].model, op)
			// whose status is about to be reported, under which names (as the store keys it)
			stApp, stEntry, stNode := op.App, op.Entry, op.Node
			if old, ok := backends[0].model.Workloads[op.ID]; ok {
				stApp, stEntry, stNode = old.App, old.Entry, old.Node
			}
			var seenBefore []int
			for _, sw := range watches {
				sw.mu.Lock()
				seenBefore = append(seenBefore, len(sw.got))
				sw.mu.Unlock()
			}
			for k, b := range backends {
				errs[k], outs[k] = applyStoreOp(ctx, b, op, viol, res)
			}
			res.OpsRun++
			if len(watches) > 0 {
				sim.Settle() // events of this operation are delivered before the next one starts
				for wi, sw := range watches {
					sw.mu.Lock()
					fresh := append([]string{}, sw.got[seenBefore[wi]:]...)
					sw.mu.Unlock()
					if op.Kind != "set_workload_status" || len(fresh) == 0 {
						continue
					}
					res.Probes["status_stream_event_checked"]++
					match := sw.app == "" || (sw.app == stApp && (sw.entry == "" || (sw.entry == stEntry && (sw.node == "" || sw.node == stNode))))
					for _, id := range fresh {
						if id != op.ID || !match {
							viol("C24", "status-stream-not-isolated", "etcd:"+backends[0].model.kindOfNames(sw.app, sw.entry, sw.node, stApp, stEntry, stNode), fmt.Sprintf("the status stream for (app %q, entry %q, node %q) delivered an event for workload %s whose status was reported under (app %q, entry %q, node %q)", sw.app, sw.entry, sw.node, id, stApp, stEntry, stNode))
						}
					}
				}
			}
			// ---- C23: same outcome on both backends ----
			// Only the first divergence of a history is reported: afterwards the two stores
			// legitimately hold different data. Its signature names the situation (from the
			// etcd side's model) so that a recorded finding matches one root cause only.
			sit := pre
			diverged := false
			if errs[0] != errs[1] {
				diverged = true
				viol("C23", "outcome-differs", op.Kind+":"+sit+":etcd-"+errs[0]+"/redis-"+errs[1], fmt.Sprintf("%s (%s): etcd store says %s, redis store says %s", op.Kind, sit, errs[0], errs[1]))
			} else if outs[0] != outs[1] {
				diverged = true
				viol("C23", "result-differs", op.Kind+":"+sit, fmt.Sprintf("%s (%s) returns\n   etcd : %s\n   redis: %s", op.Kind, sit, outs[0], outs[1]))
			}
			if errs[0] == "ok" && op.Kind != "advance" {
				res.Nontrivial = true
			}
			// ---- read-back of everything through the API ----
			var snaps [2]string
			for k, b := range backends {
				snaps[k] = readBack(ctx, b, prop, viol, res)
			}
			if snaps[0] != snaps[1] && !diverged {
				diverged = true
				viol("C23", "readback-differs", op.Kind+":"+sit+":"+errs[0], fmt.Sprintf("observable metadata differs after %s (%s, both stores said %s):\n   etcd : %s\n   redis: %s", op.Kind, sit, errs[0], snaps[0], snaps[1]))
			}
			res.StateHash = append(res.StateHash, hashStr(snaps[0]))
			if diverged && prop == "C23" {
				// A status accepted by Redis only (recorded finding: no entity check in its
				// SetNodeStatus) is taken out again so that the rest of the history is
				// still compared; a differing answer to a pure query changes nothing.
				if op.Kind == "set_node_status" && errs[0] == "error" && errs[1] == "ok" {
					rsrv.Del("/status:node/" + op.Node)
					delete(backends[1].model.NodeSt, op.Node)
					snaps[1] = readBack(ctx, backends[1], prop, viol, res)
					res.Probes["resynced"]++
				}
				if snaps[0] != snaps[1] {
					return
				}
			}
		}
	})
	sim.Run(nil, 3*time.Hour)
	sim.Finish()
	if sim.Stuck {
		res.Stuck = sim.StuckWhy
	}
	res.Stats = sim.Stats
	res.TraceHash = sim.TraceHash()
	res.Trace = sim.Trace
	sim.Stop()
}

func stWorkloadOf(op storeOp) *coretypes.Workload {
	return &coretypes.Workload{ID: op.ID, Name: utils.MakeWorkloadName(op.App, op.Entry, "ident"), Podname: "p0", Nodename: op.Node, Labels: op.Labels, Image: "img"}
}

func (m *stModel) expire() {
	now := time.Now()
	for k, s := range m.NodeSt {
		if !s.Expires.IsZero() && !now.Before(s.Expires) {
			delete(m.NodeSt, k)
			m.Count["node_status_expired"]++
		}
	}
	for k, s := range m.WlSt {
		if !s.Expires.IsZero() && !now.Before(s.Expires) {
			delete(m.WlSt, k)
			m.Count["workload_status_expired"]++
		}
	}
}

// applyStoreOp executes one op on one backend, updates that backend's model from the
// acknowledged result and checks the predictions the model can make (C24, C25).
func applyStoreOp(ctx context.Context, b *stBackend, op storeOp, viol func(p, rule, sig, detail string), res *Result) (string, string) {
	st, m := b.st, b.model
	m.expire()
	var err error
	out := ""
	switch op.Kind {
	case "advance":
	case "add_pod":
		_, err = st.AddPod(ctx, op.Pod, "")
		if err == nil {
			if m.Pods[op.Pod] {
				viol("C23", "duplicate-create-accepted", b.name+":add_pod", fmt.Sprintf("%s store accepted adding pod %s twice", b.name, op.Pod))
			}
			m.Pods[op.Pod] = true
		}
	case "remove_pod":
		err = st.RemovePod(ctx, op.Pod)
		if err == nil {
			delete(m.Pods, op.Pod)
		}
	case "add_node":
		o := &coretypes.AddNodeOptions{Nodename: op.Node, Endpoint: "sim://" + op.Node, Podname: op.Pod, Labels: op.Labels}
		if op.Cert {
			// (every request brings its own certificates: a refused add must not leave them behind)
			o.Ca, o.Cert, o.Key = "ca-of-"+op.Pod, "cert-of-"+op.Pod, "key-of-"+op.Pod
		}
		_, err = st.AddNode(ctx, o)
		if err == nil {
			if _, dup := m.Nodes[op.Node]; dup {
				viol("C23", "duplicate-create-accepted", b.name+":add_node", fmt.Sprintf("%s store accepted adding node %s twice", b.name, op.Node))
			}
			m.Nodes[op.Node] = op.Pod
		}
	case "remove_node":
		pod, ok := m.Nodes[op.Node]
		if !ok {
			pod = op.Pod
		}
		err = st.RemoveNode(ctx, &coretypes.Node{NodeMeta: coretypes.NodeMeta{Name: op.Node, Podname: pod, Endpoint: "sim://" + op.Node}})
		if err == nil {
			delete(m.Nodes, op.Node)
			delete(m.NodeSt, op.Node) // "... or the entity is removed"
		}
	case "update_node":
		pod, ok := m.Nodes[op.Node]
		if !ok {
			pod = op.Pod
		}
		err = st.UpdateNodes(ctx, &coretypes.Node{NodeMeta: coretypes.NodeMeta{Name: op.Node, Podname: pod, Endpoint: "sim://" + op.Node, Labels: op.Labels}, Bypass: op.Flag})
		if err == nil {
			m.Nodes[op.Node] = pod
		}
	case "set_node_status":
		pod := m.Nodes[op.Node]
		err = st.SetNodeStatus(ctx, &coretypes.Node{NodeMeta: coretypes.NodeMeta{Name: op.Node, Podname: pod}}, op.TTL)
		_, exists := m.Nodes[op.Node]
		if op.TTL > 0 {
			if err == nil && !exists {
				viol("C25", "status-accepted-for-missing-entity", b.name+":node", fmt.Sprintf("%s store accepted a status with ttl %d for node %s which does not exist", b.name, op.TTL, op.Node))
			}
			if err != nil && exists {
				viol("C25", "status-refused-for-live-entity", b.name+":node", fmt.Sprintf("%s store refused a status for existing node %s: %v", b.name, op.Node, err))
			}
			if err == nil {
				if prev := m.NodeSt[op.Node]; prev != nil {
					if prev.TTL == op.TTL {
						m.Count["same_status_reported_again"]++
					} else {
						m.Count["same_status_other_ttl"]++
					}
				}
				m.NodeSt[op.Node] = &stStatus{Val: "alive", TTL: op.TTL, Expires: time.Now().Add(time.Duration(op.TTL) * time.Second)}
				res.Probes["status_set"]++
			}
		} else if op.TTL < 0 && err == nil {
			delete(m.NodeSt, op.Node)
		}
	case "add_workload":
		wl := stWorkloadOf(op)
		var proc *coretypes.Processing
		if op.Flag {
			proc = &coretypes.Processing{Appname: op.App, Entryname: op.Entry, Nodename: op.Node, Ident: "pid"}
		}
		err = st.AddWorkload(ctx, wl, proc)
		if err == nil {
			// with a processing both stores put (overwrite) by design: only the plain create is create-if-absent
			if _, dup := m.Workloads[op.ID]; dup && !op.Flag {
				viol("C23", "duplicate-create-accepted", b.name+":add_workload", fmt.Sprintf("%s store accepted adding workload %s twice", b.name, op.ID))
			}
			m.Workloads[op.ID] = &stWorkload{ID: op.ID, App: op.App, Entry: op.Entry, Node: op.Node, Name: wl.Name, Labels: op.Labels}
			res.Probes["workload_added"]++
			// C24: the name parses back to what it was made of
			if a, e, _, perr := utils.ParseWorkloadName(wl.Name); perr != nil || a != op.App || e != op.Entry {
				viol("C24", "name-does-not-round-trip", "parse", fmt.Sprintf("workload name %q made of app %q entry %q parses back to app %q entry %q (%v)", wl.Name, op.App, op.Entry, a, e, perr))
			}
		}
	case "update_workload":
		old, ok := m.Workloads[op.ID]
		wl := stWorkloadOf(op)
		// (op.Flag: the update names another node / application than the record has: only
		// part of the workload's keys exist, the update has to be refused as a whole)
		same := ok && wl.Name == old.Name && wl.Nodename == old.Node
		if ok && !op.Flag {
			wl.Name, wl.Nodename = old.Name, old.Node
			same = true
		}
		err = st.UpdateWorkload(ctx, wl)
		if err == nil && ok && same {
			old.Labels = op.Labels
		}
		if err == nil && ok && !same {
			viol("C23", "update-under-other-names-accepted", b.name+":update_workload", fmt.Sprintf("%s store accepted updating workload %s under node %s / name %s although it is recorded under node %s / name %s", b.name, op.ID, wl.Nodename, wl.Name, old.Node, old.Name))
		}
		if err == nil && !ok {
			viol("C23", "update-of-missing-accepted", b.name+":update_workload", fmt.Sprintf("%s store accepted updating workload %s which does not exist", b.name, op.ID))
		}
	case "remove_workload":
		old, ok := m.Workloads[op.ID]
		wl := stWorkloadOf(op)
		if ok {
			wl.Name, wl.Nodename = old.Name, old.Node
		}
		err = st.RemoveWorkload(ctx, wl)
		if err == nil {
			delete(m.Workloads, op.ID)
			if ok {
				delete(m.WlSt, stStatusKey(old.App, old.Entry, old.Node, op.ID))
			} else {
				delete(m.WlSt, stStatusKey(op.App, op.Entry, op.Node, op.ID))
			}
		}
	case "set_workload_status":
		old, ok := m.Workloads[op.ID]
		sm := &coretypes.StatusMeta{ID: op.ID, Running: op.Val, Healthy: op.Val, Appname: op.App, Entrypoint: op.Entry, Nodename: op.Node}
		if ok {
			sm.Appname, sm.Entrypoint, sm.Nodename = old.App, old.Entry, old.Node
		}
		err = st.SetWorkloadStatus(ctx, sm, op.TTL)
		if op.TTL > 0 {
			if err == nil && !ok {
				viol("C25", "status-accepted-for-missing-entity", b.name+":workload", fmt.Sprintf("%s store accepted a status with ttl %d for workload %s which does not exist", b.name, op.TTL, op.ID))
			}
			if err != nil && ok {
				viol("C25", "status-refused-for-live-entity", b.name+":workload", fmt.Sprintf("%s store refused a status for existing workload %s: %v", b.name, op.ID, err))
			}
		}
		if err == nil {
			// (a status without TTL is accepted before the workload is recorded, by design)
			s := &stStatus{Val: fmt.Sprint(op.Val)}
			if op.TTL > 0 {
				s.Expires = time.Now().Add(time.Duration(op.TTL) * time.Second)
			}
			key := stStatusKey(sm.Appname, sm.Entrypoint, sm.Nodename, op.ID)
			if prev := m.WlSt[key]; prev != nil {
				switch {
				case prev.Val == s.Val && prev.TTL == op.TTL:
					m.Count["same_status_reported_again"]++
				case prev.Val == s.Val:
					m.Count["same_status_other_ttl"]++
				default:
					m.Count["status_changed"]++
				}
			}
			s.TTL = op.TTL
			m.WlSt[key] = s
			res.Probes["status_set"]++
			if op.TTL == 0 {
				res.Probes["status_without_ttl"]++
			}
		}
	case "deploy_seq":
		err = deploySeq(ctx, b, op, viol, res)
	case "create_processing":
		err = st.CreateProcessing(ctx, &coretypes.Processing{Appname: op.App, Entryname: op.Entry, Nodename: op.Node, Ident: "pid"}, op.Count)
		if err == nil {
			m.Proc[op.App+"/"+op.Entry+"/"+op.Node] = true
			m.ProcNames[op.App+"\x00"+op.Entry+"\x00"+op.Node] = [3]string{op.App, op.Entry, op.Node}
		}
	case "delete_processing":
		err = st.DeleteProcessing(ctx, &coretypes.Processing{Appname: op.App, Entryname: op.Entry, Nodename: op.Node, Ident: "pid"})
		if err == nil {
			delete(m.Proc, op.App+"/"+op.Entry+"/"+op.Node)
			delete(m.ProcNames, op.App+"\x00"+op.Entry+"\x00"+op.Node)
		}
	case "list_workloads":
		var wls []*coretypes.Workload
		wls, err = st.ListWorkloads(ctx, op.App, op.Entry, op.Node, op.Limit, op.Labels)
		if err == nil {
			var ids []string
			for _, w := range wls {
				ids = append(ids, w.ID)
			}
			sort.Strings(ids)
			if op.Limit > 0 {
				out = fmt.Sprintf("%d workloads (limit %d)", len(ids), op.Limit) // which ones is unspecified: compare sizes
			} else {
				out = strings.Join(ids, ",")
				// C24: exactly the workloads created under those names
				var want []string
				for _, w := range m.Workloads {
					if w.App != op.App || (op.Entry != "" && w.Entry != op.Entry) || (op.Entry != "" && op.Node != "" && w.Node != op.Node) {
						continue
					}
					if !utils.LabelsFilter(w.Labels, op.Labels) {
						continue
					}
					want = append(want, w.ID)
				}
				sort.Strings(want)
				res.Probes["list_checked"]++
				if strings.Join(want, ",") != out {
					viol("C24", "list-not-isolated", b.name+":"+m.kindOfNames(op.App, op.Entry, op.Node), fmt.Sprintf("%s store: ListWorkloads(app %q, entry %q, node %q) returned %v, but the workloads created under those names are %v", b.name, op.App, op.Entry, op.Node, ids, want))
				}
			}
		}
	case "nodes_by_pod":
		var ns []*coretypes.Node
		ns, err = st.GetNodesByPod(ctx, &coretypes.NodeFilter{Podname: op.Pod, Labels: op.Labels, All: op.Flag})
		if err == nil {
			var names []string
			for _, n := range ns {
				names = append(names, n.Name)
			}
			sort.Strings(names)
			out = strings.Join(names, ",")
		}
	case "get_workloads":
		var wls []*coretypes.Workload
		wls, err = st.GetWorkloads(ctx, []string{op.ID, "w0"})
		if err == nil {
			var ids []string
			for _, w := range wls {
				ids = append(ids, w.ID)
			}
			sort.Strings(ids)
			out = strings.Join(ids, ",")
		}
	case "deploy_status":
		var ds map[string]int
		ds, err = st.GetDeployStatus(ctx, op.App, op.Entry)
		if err == nil {
			out = fmtCounts(ds)
		}
	}
	return errClass(err), out
}

// situationOf describes, from the model, what an operation is about to meet.
func situationOf(m *stModel, op storeOp) string {
	m.expire()
	ex := func(b bool, yes, no string) string {
		if b {
			return yes
		}
		return no
	}
	_, nodeOK := m.Nodes[op.Node]
	_, wlOK := m.Workloads[op.ID]
	switch op.Kind {
	case "add_pod", "remove_pod":
		s := ex(m.Pods[op.Pod], "pod-exists", "pod-missing")
		if op.Kind == "remove_pod" {
			has := false
			for _, p := range m.Nodes {
				if p == op.Pod {
					has = true
				}
			}
			s += ex(has, "+has-nodes", "")
		}
		return s
	case "add_node":
		return ex(nodeOK, "node-exists", "node-new") + ex(m.Pods[op.Pod], "", "+pod-missing") + ex(op.Cert, "+certs", "")
	case "remove_node", "update_node":
		return ex(nodeOK, "node-exists", "node-missing")
	case "set_node_status":
		return ex(nodeOK, "node-exists", "node-missing") + fmt.Sprintf("+ttl%s", ex(op.TTL < 0, "-neg", "-pos"))
	case "add_workload":
		s := ex(wlOK, "workload-exists", "workload-new")
		if op.Flag {
			s += ex(m.Proc[op.App+"/"+op.Entry+"/"+op.Node], "+marker-present", "+marker-missing")
		}
		return s + ex(nodeOK, "", "+node-missing")
	case "update_workload", "remove_workload":
		return ex(wlOK, "workload-exists", "workload-missing")
	case "set_workload_status":
		return ex(wlOK, "workload-exists", "workload-missing") + ex(op.TTL == 0, "+ttl0", "+ttl-pos")
	case "create_processing", "delete_processing":
		return ex(m.Proc[op.App+"/"+op.Entry+"/"+op.Node], "marker-present", "marker-missing")
	case "get_workloads":
		return ex(wlOK, "workload-exists", "workload-missing") + ex(op.ID == "w0", "+same-id-twice", "")
	case "list_workloads":
		return ex(op.Limit > 0, "with-limit", "no-limit")
	}
	return "-"
}

// kindOfNames classifies the names in play (those of the query and of every recorded
// workload): recorded findings about separators or glob characters in names are matched
// on this, so a violation among plain names is never covered by them.
func (m *stModel) kindOfNames(query ...string) string {
	names := append([]string{}, query...)
	for _, id := range sortedKeys(m.Workloads) {
		w := m.Workloads[id]
		names = append(names, w.App, w.Entry, w.Node)
	}
	for _, k := range sortedKeys(m.ProcNames) {
		p := m.ProcNames[k]
		names = append(names, p[0], p[1], p[2])
	}
	return nameKind(names...)
}

func nameKind(names ...string) string {
	for _, n := range names {
		if strings.ContainsAny(n, "/") {
			return "name-with-slash"
		}
	}
	for _, n := range names {
		if strings.ContainsAny(n, "*[]?") {
			return "name-with-glob"
		}
	}
	return "plain-names"
}

func fmtCounts(m map[string]int) string {
	var parts []string
	for _, k := range sortedKeys(m) {
		if m[k] != 0 {
			parts = append(parts, fmt.Sprintf("%s=%d", k, m[k]))
		}
	}
	return strings.Join(parts, " ")
}

// readBack reads everything observable through the Store API into one canonical string
// and checks it against the backend's model (C24 counts, C25 status visibility).
func readBack(ctx context.Context, b *stBackend, prop string, viol func(p, rule, sig, detail string), res *Result) string {
	st, m := b.st, b.model
	m.expire()
	var sb strings.Builder
	pods, err := st.GetAllPods(ctx)
	var pn []string
	for _, p := range pods {
		pn = append(pn, p.Name)
	}
	sort.Strings(pn)
	fmt.Fprintf(&sb, "pods[%s]%s ", strings.Join(pn, ","), errClass(err))
	for _, p := range stPods {
		ns, err := st.GetNodesByPod(ctx, &coretypes.NodeFilter{Podname: p, All: true})
		var xs []string
		for _, n := range ns {
			certs := "?"
			nc := &coretypes.Node{NodeMeta: coretypes.NodeMeta{Name: n.Name}}
			if cerr := st.LoadNodeCert(ctx, nc); cerr == nil {
				certs = nc.Ca + "/" + nc.Cert + "/" + nc.Key
			}
			xs = append(xs, fmt.Sprintf("%s{%v,bypass=%v,up=%v,certs=%s}", n.Name, fmtLabels(n.Labels), n.Bypass, n.Available, certs))
		}
		sort.Strings(xs)
		fmt.Fprintf(&sb, "nodes(%s)[%s]%s ", p, strings.Join(xs, ","), errClass(err))
	}
	wls, err := st.ListWorkloads(ctx, "", "", "", 0, nil)
	var ws []string
	for _, w := range wls {
		s := fmt.Sprintf("%s@%s{%s}", w.ID, w.Nodename, fmtLabels(w.Labels))
		if w.StatusMeta != nil {
			s += fmt.Sprintf("status=%v", w.StatusMeta.Running)
		}
		ws = append(ws, s)
	}
	sort.Strings(ws)
	fmt.Fprintf(&sb, "workloads[%s]%s ", strings.Join(ws, ","), errClass(err))
	// ---- C25: status visibility per workload / node against the model ----
	if err == nil {
		got := map[string]*coretypes.Workload{}
		for _, w := range wls {
			got[w.ID] = w
		}
		// the status of a workload is the one reported under its application, entrypoint, node and id
		for _, id := range sortedKeys(m.Workloads) {
			mw, w := m.Workloads[id], got[id]
			if w == nil {
				continue
			}
			s := m.WlSt[stStatusKey(mw.App, mw.Entry, mw.Node, id)]
			res.Probes["status_probe"]++
			if s != nil && w.StatusMeta == nil {
				kind := "with-ttl"
				if s.Expires.IsZero() {
					kind = "without-ttl"
				}
				viol("C25", "status-vanished-early", b.name+":workload:"+kind, fmt.Sprintf("%s store: the status of workload %s is gone although its lifetime has %v to run (0 = for ever)", b.name, id, remaining(s)))
			}
			if s == nil && w.StatusMeta != nil {
				res.Probes["status_expiry_probe"]++
				viol("C25", "status-outlived-ttl", b.name+":workload", fmt.Sprintf("%s store: workload %s still shows a status although its TTL has elapsed (or none was reported)", b.name, id))
			}
		}
	}
	for _, n := range sortedKeys(m.Nodes) {
		ns, err := st.GetNodeStatus(ctx, n)
		_, want := m.NodeSt[n]
		res.Probes["status_probe"]++
		if want && err != nil {
			viol("C25", "status-vanished-early", b.name+":node", fmt.Sprintf("%s store: the status of node %s is gone although its TTL has not elapsed: %v", b.name, n, err))
		}
		if !want && err == nil && ns != nil {
			viol("C25", "status-outlived-ttl", b.name+":node", fmt.Sprintf("%s store: node %s still shows a status although its TTL has elapsed", b.name, n))
		}
		fmt.Fprintf(&sb, "nstatus(%s)=%v ", n, err == nil)
	}
	// ---- C24: deploy counts per (app, entry) seen in the model ----
	pairs := map[string]bool{}
	for _, w := range m.Workloads {
		pairs[w.App+"\x00"+w.Entry] = true
	}
	for _, k := range sortedKeys(pairs) {
		p := strings.SplitN(k, "\x00", 2)
		ds, err := st.GetDeployStatus(ctx, p[0], p[1])
		fmt.Fprintf(&sb, "deploy(%s,%s)[%s]%s ", p[0], p[1], fmtCounts(ds), errClass(err))
		if prop == "C24" && err == nil {
			// the count is exactly the workloads created under this application and entrypoint,
			// per node; while a marker under exactly these names is present the count includes
			// what is in progress and is not compared, markers under other names change nothing
			own := false
			for _, pn := range m.ProcNames {
				if pn[0] == p[0] && pn[1] == p[1] {
					own = true
				}
			}
			if own {
				continue
			}
			if len(m.ProcNames) > 0 {
				res.Probes["deploy_count_checked_with_markers_under_other_names"]++
			}
			want := map[string]int{}
			for _, w := range m.Workloads {
				if w.App == p[0] && w.Entry == p[1] {
					want[w.Node]++
				}
			}
			res.Probes["deploy_count_checked"]++
			if fmtCounts(want) != fmtCounts(ds) {
				viol("C24", "deploy-count-not-isolated", b.name+":"+m.kindOfNames(p[0], p[1]), fmt.Sprintf("%s store: GetDeployStatus(app %q, entry %q) = {%s} but the workloads created under those names are {%s}", b.name, p[0], p[1], fmtCounts(ds), fmtCounts(want)))
			}
		}
	}
	return sb.String()
}

func fmtLabels(l map[string]string) string {
	var parts []string
	for _, k := range sortedKeys(l) {
		parts = append(parts, k+"="+l[k])
	}
	return strings.Join(parts, ";")
}
