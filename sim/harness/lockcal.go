package harness

import (
	"context"
	"encoding/json"
	"fmt"
	"time"

	"github.com/projecteru2/core/cluster"

	"verif/sim/simrt"
)

// ---------------------------------------------------------------------------
// C19 at the level where the lock context is used: a real Calcium operation that holds
// a workload lock while a slow engine call is in flight (ControlWorkload stop), the
// holder's lease is revoked at the server, and the context under which the operation
// runs (observed by the simulated engine) has to end within one keep-alive interval.
// Operations whose lock is not lost must not be cancelled.
// ---------------------------------------------------------------------------

func runCalciumLockLoss(c *Case, res *Result, cfg lockCfg) {
	sim := simrt.New(c.Seed, c.Plan)
	sim.KeepTrace = traceWanted
	ccfg := cluCfg{ShareBase: 100, MaxShare: -1, Pods: []string{"p0", "p1", "p2"}, Nodes: []cluNode{
		{Name: "n0", Cores: 4, Memory: 8192 * mib, Pod: "p0", HBTTL: 36000},
		{Name: "n1", Cores: 4, Memory: 8192 * mib, Pod: "p1", HBTTL: 36000},
		{Name: "n2", Cores: 4, Memory: 8192 * mib, Pod: "p2", HBTTL: 36000}}}
	w := newCluWorld(sim, res, "C19", ccfg, c.Seed)
	defer w.cleanup()
	w.shadow = &shadowPlugin{sim: sim, inst: sim.NewInstance()}
	var ops []lockOp
	for _, raw := range c.Ops {
		var op lockOp
		_ = json.Unmarshal(raw, &op)
		ops = append(ops, op)
	}
	seen := map[string]bool{}
	viol := func(rule, sig, detail string) {
		if seen[rule+sig] {
			return
		}
		seen[rule+sig] = true
		res.Violations = append(res.Violations, Violation{Property: "C19", Rule: rule, Sig: sig, Detail: detail, Step: sim.Stats.Steps})
	}
	sim.Go(func() {
		ctx := context.Background()
		sim.SetFaultsEnabled(false)
		w.core = w.boot("")
		for _, p := range ccfg.Pods {
			if _, err := w.core.cal.AddPod(ctx, p, ""); err != nil {
				res.Harness = "setup: " + err.Error()
				return
			}
		}
		for _, n := range ccfg.Nodes {
			if err := w.addNode(ctx, n); err != nil {
				res.Harness = "setup: " + err.Error()
				return
			}
		}
		ch, err := w.core.cal.CreateWorkload(ctx, w.deployOpts(cluOp{App: "app", Entry: "main", Strategy: "AUTO", Count: 3, Includes: []int{0}, Req: resReq{MemReq: 64 * mib}}))
		if err != nil {
			res.Harness = "setup create: " + err.Error()
			return
		}
		for range ch {
		}
		sim.Settle()
		ids := w.liveWorkloads()
		if len(ids) == 0 {
			res.Harness = "setup: no workload could be created"
			return
		}
		eng := w.engines["n0"]
		ttl := w.ccfg.LockTimeout
		// one keep-alive interval, plus the lessor's polling granularity, plus slack
		bound := ttl/3 + 1500*time.Millisecond + time.Second
		slow := 2*ttl + 10*time.Second
		eng.SetSlow("Stop", slow)
		for i, op := range ops {
			if op.Kind == "capacity" {
				// a section under several locks at once (a capacity query over machines of three
				// pods holds the three pod locks); one of them is lost while a plugin is slow to
				// answer, and the context the section runs under has to end
				w.shadow.mu.Lock()
				w.shadow.slowCapacity = slow
				w.shadow.mu.Unlock()
				before := len(w.shadow.cancelled())
				done := make(chan error, 1)
				t0 := time.Now()
				go func() {
					_, err := w.core.cal.CalculateCapacity(ctx, w.deployOpts(cluOp{App: "app", Entry: "main", Strategy: "AUTO", Count: 1, Includes: []int{0, 1, 2}, Req: resReq{MemReq: 64 * mib}}))
					done <- err
				}()
				var revokedAt time.Time
				pod := ccfg.Pods[op.Who%len(ccfg.Pods)]
				if op.Loss != "" {
					time.Sleep(3*time.Second + time.Duration(op.GapMs%4000)*time.Millisecond + offGrid(1))
					_, lease := w.etcd.FirstCreated("/" + lockPrefix + "/" + fmt.Sprintf(cluster.PodLock, pod) + "/")
					if lease != 0 && w.etcd.RevokeLease(lease) {
						revokedAt = time.Now()
						res.Probes["lease_revoked"]++
						res.Probes["calcium_one_of_several_locks_revoked"]++
					}
				}
				err := <-done
				took := time.Since(t0)
				res.OpsRun++
				res.Nontrivial = true
				cancelled := w.shadow.cancelled()[before:]
				if revokedAt.IsZero() {
					res.Probes["calcium_op_without_loss"]++
					if len(cancelled) > 0 || err != nil && took < slow {
						viol("cancelled-without-loss", "calcium", fmt.Sprintf("op#%d: a capacity query was cancelled after %v although none of its locks was lost: %v", i, took, err))
					}
				} else {
					told := time.Duration(-1)
					for _, at := range cancelled {
						told = at.Sub(revokedAt)
					}
					res.Probes["loss_observed"]++
					if told < 0 || told > bound {
						viol("operation-continues-after-lock-loss", "calcium:revoke-one-of-several", fmt.Sprintf("op#%d: a capacity query held the locks of pods %v; the lease of the lock of %s was revoked %v into it; the context the section runs under was not cancelled within %v (cancelled after: %v; the query returned after %v with %v)", i, ccfg.Pods, pod, revokedAt.Sub(t0), bound, told, took, err))
					}
				}
				w.shadow.mu.Lock()
				w.shadow.slowCapacity = 0
				w.shadow.mu.Unlock()
				sim.Settle()
				continue
			}
			if op.Kind == "remove" {
				// the lock is lost while the first step of a remove (give the resources back) is
				// in flight with a party that finishes what it started; the second step (remove
				// the container, delete the record) must not begin under the lost lock
				live := w.liveWorkloads()
				if len(live) == 0 {
					continue
				}
				id := live[i%len(live)]
				w.shadow.mu.Lock()
				w.shadow.slowUsage = slow
				w.shadow.mu.Unlock()
				done := make(chan error, 1)
				t0 := time.Now()
				go func() {
					ch, err := w.core.cal.RemoveWorkload(ctx, []string{id}, true)
					if err != nil {
						done <- err
						return
					}
					var last error
					for m := range ch {
						if !m.Success {
							last = fmt.Errorf("remove reported failure")
						}
					}
					done <- last
				}()
				var revokedAt time.Time
				if op.Loss != "" {
					time.Sleep(3*time.Second + time.Duration(op.GapMs%4000)*time.Millisecond + offGrid(1))
					_, lease := w.etcd.FirstCreated("/" + lockPrefix + "/" + fmt.Sprintf(cluster.WorkloadLock, id) + "/")
					if lease != 0 && w.etcd.RevokeLease(lease) {
						revokedAt = time.Now()
						res.Probes["lease_revoked"]++
						res.Probes["calcium_lock_revoked_during_first_step"]++
					}
				}
				err := <-done
				took := time.Since(t0)
				w.shadow.mu.Lock()
				w.shadow.slowUsage = 0
				w.shadow.mu.Unlock()
				sim.Settle()
				res.OpsRun++
				res.Nontrivial = true
				_, still := eng.Get(id)
				if revokedAt.IsZero() {
					res.Probes["calcium_op_without_loss"]++
					if err != nil || still {
						viol("cancelled-without-loss", "calcium", fmt.Sprintf("op#%d: remove of %s failed after %v although its lock was never lost: %v (container still there: %v)", i, shortID(id), took, err, still))
					}
				} else {
					res.Probes["loss_observed"]++
					if !still {
						viol("operation-continues-after-lock-loss", "calcium:revoke-during-first-step", fmt.Sprintf("op#%d: the lease of the workload lock of %s was revoked %v into a remove whose first step lasted %v; the second step ran all the same and removed the container %v after the lock was lost (bound %v)", i, shortID(id), revokedAt.Sub(t0), slow, time.Since(revokedAt), bound))
					}
				}
				continue
			}
			if live := w.liveWorkloads(); len(live) > 0 {
				ids = live // (removals of this history may have taken some away)
			} else {
				continue
			}
			id := ids[i%len(ids)]
			typ := cluster.WorkloadStop
			before := len(eng.CancelledOps())
			done := make(chan error, 1)
			t0 := time.Now()
			go func() {
				ch, err := w.core.cal.ControlWorkload(ctx, []string{id}, typ, true)
				if err != nil {
					done <- err
					return
				}
				var last error
				for m := range ch {
					last = m.Error
				}
				done <- last
			}()
			var revokedAt time.Time
			if op.Loss != "" {
				time.Sleep(3*time.Second + time.Duration(op.GapMs%4000)*time.Millisecond + offGrid(1))
				_, lease := w.etcd.FirstCreated("/" + lockPrefix + "/" + fmt.Sprintf(cluster.WorkloadLock, id) + "/")
				if lease != 0 && w.etcd.RevokeLease(lease) {
					revokedAt = time.Now()
					res.Probes["lease_revoked"]++
					res.Probes["calcium_lock_revoked"]++
				}
			}
			err := <-done
			took := time.Since(t0)
			res.OpsRun++
			res.Nontrivial = true
			cancelled := eng.CancelledOps()[before:]
			if revokedAt.IsZero() {
				res.Probes["calcium_op_without_loss"]++
				if len(cancelled) > 0 || err != nil && took < slow {
					viol("cancelled-without-loss", "calcium", fmt.Sprintf("op#%d: stop of %s was cancelled after %v although its lock was never lost: %v", i, shortID(id), took, err))
				}
			} else {
				told := time.Duration(-1)
				for _, cr := range cancelled {
					if cr.What == "Stop" {
						told = cr.At.Sub(revokedAt)
					}
				}
				res.Probes["loss_observed"]++
				if told < 0 || told > bound {
					viol("operation-continues-after-lock-loss", "calcium:revoke", fmt.Sprintf("op#%d: the lease of the workload lock of %s was revoked %v into a stop operation; the context the operation runs under was not cancelled within %v (cancelled after: %v; the operation returned after %v with %v)", i, shortID(id), revokedAt.Sub(t0), bound, told, took, err))
				}
			}
			sim.Settle()
		}
	})
	sim.Run(nil, 4*time.Hour)
	sim.Finish()
	if sim.Stuck {
		res.Stuck = sim.StuckWhy
	}
	res.Stats = sim.Stats
	res.TraceHash = sim.TraceHash()
	res.Trace = sim.Trace
	sim.Stop()
	if w.core != nil {
		w.core.cancel()
	}
}
