package harness

import (
	"context"
	"encoding/json"
	"fmt"
	"math/rand/v2"
	"sort"
	"strings"
	"sync"
	"time"

	"github.com/google/uuid"
	"github.com/projecteru2/core/discovery/helium"
	"github.com/projecteru2/core/store/etcdv3"
	"github.com/projecteru2/core/store/etcdv3/meta"
	coretypes "github.com/projecteru2/core/types"
	"github.com/projecteru2/core/verifrt"
	"github.com/rs/zerolog"

	"verif/sim/simetcd"
	"verif/sim/simrt"
)

// ---------------------------------------------------------------------------
// H-disc (C27): real helium over real Mercury over simulated etcd; core instances
// register and deregister their addresses while subscribers (prompt, slow, stuck)
// come and go.
// ---------------------------------------------------------------------------

type discOp struct {
	Kind  string `json:"kind"` // register | deregister | subscribe | unsubscribe | wait
	Addr  int    `json:"addr,omitempty"`
	Sub   int    `json:"sub,omitempty"`
	Speed string `json:"speed,omitempty"` // prompt | slow | stuck
	Ms    int    `json:"ms,omitempty"`
}

type discH struct{}

func init() { Register("disc", discH{}) }

func (discH) Generate(property string, seed uint64, tier string) *Case {
	g := rand.New(rand.NewPCG(seed, 0xd15c))
	var ops []json.RawMessage
	n := 4 + g.IntN(10)
	for i := 0; i < n; i++ {
		op := discOp{Addr: g.IntN(3), Sub: g.IntN(4)}
		x := g.IntN(100)
		switch {
		case x < 30:
			op.Kind = "register"
		case x < 45:
			op.Kind = "deregister"
		case x < 70:
			op.Kind = "subscribe"
			op.Speed = []string{"prompt", "prompt", "slow", "stuck"}[g.IntN(4)]
		case x < 82:
			op.Kind = "unsubscribe"
		case x < 85:
			op.Kind = "unsubscribe_all" // every subscriber leaves at the same moment
		default:
			op.Kind, op.Ms = "wait", 200+g.IntN(4000)
		}
		ops = append(ops, mustJSON(op))
	}
	return &Case{Plan: simrt.Plan{Policy: []string{"fifo", "random", "sticky", "pct"}[g.IntN(4)], CrashAt: -1}, Cfg: mustJSON(map[string]int{"interval_s": 1}), Ops: ops}
}

type discSub struct {
	id     uuid.UUID
	speed  string
	ch     <-chan coretypes.ServiceStatus
	cancel context.CancelFunc
	mu     sync.Mutex
	last   []string
	lastAt time.Time
	got    int
	closed bool
	unsubDone bool
	unsubAt   time.Time
	unsubCalled chan struct{}
}

func (discH) Execute(c *Case, res *Result) {
	sim := simrt.New(c.Seed, c.Plan)
	sim.KeepTrace = traceWanted
	zerolog.SetGlobalLevel(zerolog.Disabled)
	verifrt.Permute = sim.Permute
	// yield points inserted into discovery/helium (scratch copy): each is a scheduler step
	verifrt.Tick = func() { _ = sim.Seam(nil, "helium", "yield", false) }
	defer func() { verifrt.Permute, verifrt.Tick = nil, nil }()
	uuid.SetRand(&detReader{r: rand.New(rand.NewPCG(c.Seed, 99))})
	defer uuid.SetRand(nil)
	var ops []discOp
	for _, raw := range c.Ops {
		var op discOp
		_ = json.Unmarshal(raw, &op)
		ops = append(ops, op)
	}
	seen := map[string]bool{}
	viol := func(rule, sig, detail string) {
		if seen[rule+sig] {
			return
		}
		seen[rule+sig] = true
		res.Violations = append(res.Violations, Violation{Property: "C27", Rule: rule, Sig: sig, Detail: detail, Step: sim.Stats.Steps})
	}
	interval := time.Second
	sim.Go(func() {
		srv := simetcd.NewServer(sim, "etcd")
		h := srv.NewClient(sim.NewInstance(), "etcd")
		cfg := coretypes.Config{MaxConcurrency: 10000}
		cfg.GRPCConfig.ServiceDiscoveryPushInterval = interval
		merc, err := etcdv3.NewWithKV(cfg, meta.NewETCDWithClient(h.Client, coretypes.EtcdConfig{}))
		if err != nil {
			res.Harness = err.Error()
			return
		}
		rootCtx, rootCancel := context.WithCancel(context.Background())
		defer rootCancel()
		hel := helium.New(rootCtx, cfg.GRPCConfig, merc)
		registered := map[int]func(){}
		subs := map[int]*discSub{}
		var allSubs []*discSub
		addr := func(i int) string { return fmt.Sprintf("10.0.0.%d:5001", i+1) }
		lastChange := time.Now()
		stuckLive := false
		slowLive := false
		for i, op := range ops {
			switch op.Kind {
			case "register":
				if _, ok := registered[op.Addr]; ok {
					continue
				}
				_, unreg, err := merc.RegisterService(rootCtx, addr(op.Addr), 30*time.Second)
				if err != nil {
					continue
				}
				registered[op.Addr] = unreg
				lastChange = time.Now()
				res.Probes["registered"]++
			case "deregister":
				if unreg, ok := registered[op.Addr]; ok {
					unreg()
					delete(registered, op.Addr)
					lastChange = time.Now()
					res.Probes["deregistered"]++
				}
			case "subscribe":
				if _, ok := subs[op.Sub]; ok {
					continue
				}
				sctx, cancel := context.WithCancel(rootCtx)
				id, ch := hel.Subscribe(sctx)
				s := &discSub{id: id, speed: op.Speed, ch: ch, cancel: cancel, unsubCalled: make(chan struct{})}
				subs[op.Sub] = s
				allSubs = append(allSubs, s)
				res.Probes["subscribed_"+op.Speed]++
				go func() {
					for m := range s.ch {
						if debugOn {
							fmt.Printf("DEBUG t=%v sub %s id=%d got %v\n", sim.Now(), s.speed, s.id.ID(), m.Addresses)
						}
						s.mu.Lock()
						s.last = append([]string(nil), m.Addresses...)
						sort.Strings(s.last)
						s.lastAt = time.Now()
						s.got++
						stuck := s.speed == "stuck" && s.got >= 1
						s.mu.Unlock()
						if stuck {
							// a reader that stopped reading (a client whose connection is wedged);
							// once it unsubscribes (the client went away) the handler gets out of
							// its blocked send and sees the channel closed
							select {
							case <-sctx.Done():
							case <-s.unsubCalled:
							}
							for range s.ch {
							}
							break
						}
						if s.speed == "slow" {
							time.Sleep(2500*time.Millisecond + offGrid(3))
						}
					}
					s.mu.Lock()
					s.closed = true
					s.mu.Unlock()
				}()
			case "unsubscribe":
				s, ok := subs[op.Sub]
				if !ok {
					continue
				}
				delete(subs, op.Sub)
				res.Probes["unsubscribe"]++
				close(s.unsubCalled)
				if i%2 == 0 {
					s.cancel() // the way the cluster uses it: the subscriber's context ends, then Unsubscribe
					res.Probes["unsubscribe_after_context_ended"]++
				}
				go func() {
					hel.Unsubscribe(s.id)
					s.mu.Lock()
					s.unsubDone = true
					s.unsubAt = time.Now()
					s.mu.Unlock()
				}()
				s.unsubAt = time.Now()
			case "unsubscribe_all":
				var ks []int
				for k := range subs {
					ks = append(ks, k)
				}
				sort.Ints(ks)
				for _, k := range ks {
					s := subs[k]
					delete(subs, k)
					res.Probes["unsubscribe"]++
					res.Probes["unsubscribe_at_the_same_moment"]++
					close(s.unsubCalled)
					s.unsubAt = time.Now()
					if (i+k)%2 == 0 {
						s.cancel()
						res.Probes["unsubscribe_after_context_ended"]++
					}
					go func() {
						hel.Unsubscribe(s.id)
						s.mu.Lock()
						s.unsubDone = true
						s.unsubAt = time.Now()
						s.mu.Unlock()
					}()
				}
			case "wait":
				time.Sleep(time.Duration(op.Ms)*time.Millisecond + offGrid(0))
			}
			_ = i
			res.OpsRun++
			// let the consequences of one operation play out before the next one starts: two
			// events becoming ready for helium's loop at the same instant would leave the order
			// to Go's random choice among ready select cases, which no seed controls
			sim.Settle()
			time.Sleep(3*time.Millisecond + offGrid(i%5))
		}
		for _, s := range subs {
			if s.speed == "stuck" {
				stuckLive = true
			}
			if s.speed == "slow" {
				slowLive = true
			}
		}
		for _, s := range allSubs {
			if s.speed == "stuck" && !s.unsubDone {
				stuckLive = true
			}
		}
		// let things converge: a push interval, plus what a slow reader needs to catch up
		sim.Settle()
		time.Sleep(3*interval + 6*time.Second + offGrid(1))
		sim.Settle()
		var want []string
		for a := range registered {
			want = append(want, addr(a))
		}
		sort.Strings(want)
		res.Nontrivial = len(allSubs) > 0
		kind := "all-prompt"
		if slowLive {
			kind = "with-slow-reader"
		}
		if stuckLive {
			kind = "with-stuck-reader"
		}
		for _, k := range []int{0, 1, 2, 3} {
			s, ok := subs[k]
			if !ok || s.speed == "stuck" {
				continue
			}
			s.mu.Lock()
			last, at, got := s.last, s.lastAt, s.got
			s.mu.Unlock()
			res.Probes["live_subscriber_checked"]++
			if got == 0 {
				viol("subscriber-got-nothing", kind, fmt.Sprintf("live %s subscriber %d never received the service list (registered %v) although %v passed since the last change", s.speed, k, want, time.Since(lastChange)))
				continue
			}
			if strings.Join(last, ",") != strings.Join(want, ",") {
				viol("subscriber-not-converged", kind, fmt.Sprintf("live %s subscriber %d last saw %v (at %v) but the registered set is %v since %v", s.speed, k, last, at.Sub(sim.Start), want, lastChange.Sub(sim.Start)))
			} else if time.Since(at) > 2*interval+3*time.Second {
				viol("subscriber-starved", kind, fmt.Sprintf("live %s subscriber %d received nothing for %v (push interval %v)", s.speed, k, time.Since(at), interval))
			}
		}
		for idx, s := range allSubs {
			s.mu.Lock()
			live := false
			for _, x := range subs {
				if x == s {
					live = true
				}
			}
			if !live {
				if !s.unsubDone {
					viol("unsubscribe-never-returns", kind, fmt.Sprintf("Unsubscribe of subscriber #%d (%s) has not returned %v after it was called", idx, s.speed, time.Since(s.unsubAt)))
				} else if !s.closed {
					viol("channel-not-closed", kind, fmt.Sprintf("Unsubscribe of subscriber #%d returned but its channel is still open", idx))
				}
			}
			s.mu.Unlock()
		}
		for _, s := range allSubs {
			s.cancel()
		}
	})
	sim.Run(nil, time.Hour)
	sim.Finish()
	if sim.Stuck {
		res.Stuck = sim.StuckWhy
	}
	res.Stats = sim.Stats
	res.TraceHash = sim.TraceHash()
	res.Trace = sim.Trace
	sim.Stop()
}
