package harness

import (
	"fmt"
	"os"
	"sort"
	"strings"
	"syscall"
)

// The race detector writes its reports to file descriptor 2. In a race build every run
// has fd 2 pointed at a scratch file for its duration, so that a report belongs to a seed.

func captureStderr() func() string {
	base := "/dev/shm"
	if st, err := os.Stat(base); err != nil || !st.IsDir() {
		base = os.TempDir()
	}
	f, err := os.CreateTemp(base, fmt.Sprintf("verif-race-%d-*.txt", os.Getpid()))
	if err != nil {
		return func() string { return "" }
	}
	saved, err := syscall.Dup(2)
	if err != nil {
		f.Close()
		os.Remove(f.Name())
		return func() string { return "" }
	}
	_ = syscall.Dup2(int(f.Fd()), 2)
	return func() string {
		_ = syscall.Dup2(saved, 2)
		_ = syscall.Close(saved)
		f.Close()
		b, _ := os.ReadFile(f.Name())
		os.Remove(f.Name())
		return string(b)
	}
}

type raceReport struct {
	A, B string // accessor functions (first non-runtime frame of each access), sorted
	Text string
}

const corePrefix = "github.com/projecteru2/core/"

func isRuntimeFrame(fn string) bool {
	for _, p := range []string{"runtime.", "sync.", "sync/atomic.", "internal/", "reflect.", "testing."} {
		if strings.HasPrefix(fn, p) {
			return true
		}
	}
	return false
}

// parseRaces splits detector output into reports and names the two accessors.
func parseRaces(out string) []raceReport {
	var reps []raceReport
	for _, blk := range strings.Split(out, "WARNING: DATA RACE")[1:] {
		if i := strings.Index(blk, "=================="); i >= 0 {
			blk = blk[:i]
		}
		var acc []string
		lines := strings.Split(blk, "\n")
		for i := 0; i < len(lines); i++ {
			l := strings.TrimSpace(lines[i])
			isAccess := (strings.HasPrefix(l, "Read at ") || strings.HasPrefix(l, "Write at ") || strings.HasPrefix(l, "Previous read at ") || strings.HasPrefix(l, "Previous write at ") ||
				strings.HasPrefix(l, "Atomic") || strings.HasPrefix(l, "Previous atomic")) && strings.HasSuffix(l, ":")
			if !isAccess {
				continue
			}
			// the accessor is attributed to the first frame, walking towards the callers,
			// that belongs to core or to the simulator: library and standard-library code
			// (maps, rand, pools, clients) is charged to whoever called it
			fn, top := "?", ""
			for j := i + 1; j < len(lines); j++ {
				f := strings.TrimSpace(lines[j])
				if f == "" {
					break
				}
				if !strings.HasSuffix(f, ")") || strings.Contains(f, ".go:") || strings.Contains(f, ".s:") {
					continue // file:line of the previous frame
				}
				name := f[:strings.LastIndex(f, "(")]
				if isRuntimeFrame(name) {
					continue
				}
				if top == "" {
					top = name
				}
				if strings.HasPrefix(name, corePrefix) || strings.HasPrefix(name, "verif/") {
					fn = name
					if top != name {
						fn = name + " (in " + top + ")"
					}
					break
				}
			}
			if fn == "?" && top != "" {
				fn = top
			}
			acc = append(acc, fn)
		}
		if len(acc) < 2 {
			acc = append(acc, "?", "?")
		}
		a, b := acc[0], acc[1]
		if b < a {
			a, b = b, a
		}
		reps = append(reps, raceReport{A: a, B: b, Text: "WARNING: DATA RACE" + blk})
	}
	sort.SliceStable(reps, func(i, j int) bool { return reps[i].A+reps[i].B < reps[j].A+reps[j].B })
	return reps
}

// inCore says whether an accessor belongs to the code under verification (and not to the
// simulator, the harness, the simulated servers or the hook runtime).
func inCore(fn string) bool {
	return strings.HasPrefix(fn, corePrefix) && !strings.HasPrefix(fn, corePrefix+"verifrt")
}
