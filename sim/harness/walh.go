package harness

import (
	"context"
	"encoding/json"
	"fmt"
	"math/rand/v2"
	"os"
	"path/filepath"
	"sort"
	"strconv"
	"strings"
	"sync"
	"time"

	"github.com/projecteru2/core/verifrt"
	"github.com/projecteru2/core/wal"
	"github.com/projecteru2/core/wal/kv"

	"verif/sim/simrt"
)

// ---------------------------------------------------------------------------
// H-wal (C16): real Hydro over real Lithium/bbolt on a real file. Every kv call is a
// seam: loggers interleave, the process may die between any two kv calls (also in the
// middle of a recovery), the next instance opens a copy of the file taken at that point.
// ---------------------------------------------------------------------------

type walCfg struct {
	Loggers int               `json:"loggers"`
	Types   map[string]string `json:"types"` // event type -> handler behaviour: ok | err | noneed | checkerr | decodeerr
}

type walOp struct {
	Kind    string `json:"kind"` // log | commit | recover | reopen | crash
	Task    int    `json:"task,omitempty"`
	Type    string `json:"type,omitempty"`
	Slot    int    `json:"slot,omitempty"`
	Drop    string `json:"drop,omitempty"`     // reopen: handler type left unregistered in the new instance
	CrashAt int    `json:"crash_at,omitempty"` // recover: die after this many kv/handler steps (0 = do not)
	Flip    string `json:"flip,omitempty"`     // reopen: change this type's behaviour to ok
}

type walH struct{}

func init() { Register("wal", walH{}) }

var walTypes = []string{"ta", "tb", "tc"}
var walBeh = []string{"ok", "ok", "err", "noneed", "checkerr", "decodeerr"}

func (walH) Generate(property string, seed uint64, tier string) *Case {
	g := rand.New(rand.NewPCG(seed, 0x3a1))
	cfg := walCfg{Loggers: 1 + g.IntN(3), Types: map[string]string{}}
	for _, t := range walTypes {
		cfg.Types[t] = walBeh[g.IntN(len(walBeh))]
	}
	n := 5 + g.IntN(14)
	if tier == "thorough" {
		n = 5 + g.IntN(30)
	}
	var ops []json.RawMessage
	for i := 0; i < n; i++ {
		op := walOp{Task: g.IntN(cfg.Loggers), Slot: g.IntN(32)}
		x := g.IntN(100)
		switch {
		case x < 4:
			// many events at once: ids grow past one hex digit, so that the order of keys
			// and the order of ids can differ if keys are not order preserving
			op.Kind, op.Type, op.Slot = "burst", walTypes[g.IntN(3)], 17+g.IntN(30)
		case x < 45:
			op.Kind, op.Type = "log", walTypes[g.IntN(3)]
		case x < 65:
			op.Kind = "commit"
		case x < 80:
			op.Kind = "recover"
			if g.IntN(3) == 0 {
				op.CrashAt = 1 + g.IntN(8)
			}
		case x < 90:
			op.Kind = "reopen"
			if g.IntN(3) == 0 {
				op.Drop = walTypes[g.IntN(3)]
			}
			if g.IntN(3) == 0 {
				op.Flip = walTypes[g.IntN(3)]
			}
		default:
			op.Kind = "crash"
			if g.IntN(3) == 0 {
				op.Drop = walTypes[g.IntN(3)]
			}
		}
		ops = append(ops, mustJSON(op))
	}
	plan := simrt.Plan{Policy: []string{"fifo", "random", "sticky"}[g.IntN(3)], CrashAt: -1}
	if g.IntN(2) == 0 {
		plan.ErrAt = []int{g.IntN(4 * n)}
	}
	return &Case{Plan: plan, Cfg: mustJSON(cfg), Ops: ops}
}

// simKV is the seam around the real Lithium.
type simKV struct {
	inner *kv.Lithium
	w     *walWorld
	inst  *simrt.Instance
	noErr bool // recovery path: no injected errors
}

func (k *simKV) seam(label string, faultable bool) error {
	return k.w.sim.Seam(k.inst, "walkv", label, faultable && !k.w.inRecover)
}

func (k *simKV) Open(path string, mode os.FileMode, timeout time.Duration) error {
	return k.inner.Open(path, mode, timeout)
}
func (k *simKV) Close() error { return k.inner.Close() }
func (k *simKV) Put(key, val []byte) error {
	if err := k.seam("Put", true); err != nil {
		return err
	}
	if err := k.inner.Put(key, val); err != nil {
		return err
	}
	k.w.observePut(string(key), val)
	return nil
}
func (k *simKV) Get(key []byte) ([]byte, error) { return k.inner.Get(key) }
func (k *simKV) Delete(key []byte) error {
	if err := k.seam("Delete", true); err != nil {
		return err
	}
	if err := k.inner.Delete(key); err != nil {
		return err
	}
	k.w.observeDelete(string(key))
	return nil
}
func (k *simKV) Scan(prefix []byte) (<-chan kv.ScanEntry, func()) {
	_ = k.seam("Scan", false)
	return k.inner.Scan(prefix)
}
func (k *simKV) NextSequence() (uint64, error) {
	if err := k.seam("NextSequence", true); err != nil {
		return 0, err
	}
	id, err := k.inner.NextSequence()
	if err == nil {
		k.w.observeSeq(id)
	}
	return id, err
}

type walEvent struct {
	ID      uint64
	Type    string
	Payload string
}

type walWorld struct {
	sim       *simrt.Sim
	res       *Result
	cfg       walCfg
	dir       string
	gen       int
	hydro     *wal.Hydro
	kv        *simKV
	inst      *simrt.Instance
	mu        sync.Mutex
	file      map[uint64]walEvent // model of the file: completed puts minus completed deletes
	lastSeq   uint64
	seqs      []uint64
	commits   []*walCommit
	calls     []string // handler invocations of the current recovery
	registered map[string]bool
	beh       map[string]string
	inRecover bool
	recSteps  int
	recCrash  int
	seenV     map[string]bool
	curOp     string
	opIndex   int
	nextTok   int
}

type walCommit struct {
	tok    string
	commit wal.Commit
	gen    int
	done   bool
}

func (w *walWorld) viol(rule, sig, detail string) {
	if w.seenV[rule+sig] {
		return
	}
	w.seenV[rule+sig] = true
	w.res.Violations = append(w.res.Violations, Violation{Property: "C16", Rule: rule, Sig: sig, Detail: detail + " [" + w.curOp + "]", OpIndex: w.opIndex, Step: w.sim.Stats.Steps})
}

func parseEventKey(key string) (uint64, bool) {
	if !strings.HasPrefix(key, "/events/") {
		return 0, false
	}
	id, err := strconv.ParseUint(strings.TrimPrefix(key, "/events/"), 16, 64)
	return id, err == nil
}

func (w *walWorld) observeSeq(id uint64) {
	w.mu.Lock()
	defer w.mu.Unlock()
	if id <= w.lastSeq {
		w.viol("id-reused", "sequence", fmt.Sprintf("event id %d handed out after id %d", id, w.lastSeq))
	}
	w.lastSeq = id
	w.seqs = append(w.seqs, id)
}

func (w *walWorld) observePut(key string, val []byte) {
	id, ok := parseEventKey(key)
	if !ok {
		return
	}
	var ev struct {
		Type string `json:"type"`
		Item []byte `json:"item"`
	}
	_ = json.Unmarshal(val, &ev)
	w.mu.Lock()
	defer w.mu.Unlock()
	if _, dup := w.file[id]; dup {
		w.viol("id-overwritten", "put", fmt.Sprintf("event id %d written twice", id))
	}
	w.file[id] = walEvent{ID: id, Type: ev.Type, Payload: string(ev.Item)}
}

func (w *walWorld) observeDelete(key string) {
	id, ok := parseEventKey(key)
	if !ok {
		return
	}
	w.mu.Lock()
	delete(w.file, id)
	w.mu.Unlock()
}

// handler is the seeded EventHandler of one type.
type walHandler struct {
	typ string
	w   *walWorld
}

func (h *walHandler) Typ() string { return h.typ }
func (h *walHandler) Encode(v any) ([]byte, error) {
	return []byte(v.(string)), nil
}
func (h *walHandler) Decode(b []byte) (any, error) {
	if h.w.beh[h.typ] == "decodeerr" {
		h.w.note("decode-err " + string(b))
		return nil, fmt.Errorf("sim: cannot decode")
	}
	return string(b), nil
}
func (h *walHandler) Check(_ context.Context, v any) (bool, error) {
	h.w.step("check " + v.(string))
	switch h.w.beh[h.typ] {
	case "checkerr":
		return false, fmt.Errorf("sim: check failed")
	case "noneed":
		return false, nil
	}
	return true, nil
}
func (h *walHandler) Handle(_ context.Context, v any) error {
	h.w.step("handle " + v.(string))
	if h.w.beh[h.typ] == "err" {
		return fmt.Errorf("sim: handler failed")
	}
	return nil
}

func (w *walWorld) note(s string) {
	w.mu.Lock()
	w.calls = append(w.calls, s)
	w.mu.Unlock()
}

// step is a handler seam: the process may die inside a recovery.
func (w *walWorld) step(s string) {
	_ = w.sim.Seam(w.inst, "walhandler", s, false)
	w.note(s)
	w.recSteps++
	if w.recCrash > 0 && w.recSteps == w.recCrash {
		// the process dies here: this goroutine never continues
		w.sim.Crash(w.inst)
		select {}
	}
}

func (w *walWorld) open(copyFrom string, drop, flip string) error {
	w.gen++
	w.inst = w.sim.NewInstance()
	path := filepath.Join(w.dir, fmt.Sprintf("wal-%d.db", w.gen))
	if copyFrom != "" {
		b, err := os.ReadFile(copyFrom)
		if err != nil {
			return err
		}
		if err := os.WriteFile(path, b, 0o600); err != nil {
			return err
		}
	}
	l := kv.NewLithium()
	if err := l.Open(path, 0o600, 5*time.Second); err != nil {
		return err
	}
	w.kv = &simKV{inner: l, w: w, inst: w.inst}
	w.hydro = wal.NewHydroWithKV(w.kv)
	if flip != "" {
		w.beh[flip] = "ok"
	}
	w.registered = map[string]bool{}
	for _, t := range walTypes {
		if t == drop {
			continue
		}
		w.registered[t] = true
		w.hydro.Register(&walHandler{typ: t, w: w})
	}
	return nil
}

func (w *walWorld) path() string { return filepath.Join(w.dir, fmt.Sprintf("wal-%d.db", w.gen)) }

// expected computes what a recovery must do from the model of the file.
func (w *walWorld) expected() (calls []string, remain map[uint64]bool) {
	remain = map[uint64]bool{}
	var ids []uint64
	for id := range w.file {
		ids = append(ids, id)
	}
	sort.Slice(ids, func(i, j int) bool { return ids[i] < ids[j] })
	for _, id := range ids {
		ev := w.file[id]
		if !w.registered[ev.Type] {
			remain[id] = true
			continue
		}
		switch w.beh[ev.Type] {
		case "decodeerr":
			calls = append(calls, "decode-err "+ev.Payload)
			remain[id] = true
		case "checkerr":
			calls = append(calls, "check "+ev.Payload)
			remain[id] = true
		case "noneed":
			calls = append(calls, "check "+ev.Payload)
		case "err":
			calls = append(calls, "check "+ev.Payload, "handle "+ev.Payload)
			remain[id] = true
		default:
			calls = append(calls, "check "+ev.Payload, "handle "+ev.Payload)
		}
	}
	return
}

func (walH) Execute(c *Case, res *Result) {
	var cfg walCfg
	_ = json.Unmarshal(c.Cfg, &cfg)
	sim := simrt.New(c.Seed, c.Plan)
	sim.KeepTrace = traceWanted
	verifrt.Permute = sim.Permute
	defer func() { verifrt.Permute = nil }()
	base := "/dev/shm"
	if st, err := os.Stat(base); err != nil || !st.IsDir() {
		base = os.TempDir()
	}
	dir, _ := os.MkdirTemp(base, "verif-hwal-")
	defer os.RemoveAll(dir)
	w := &walWorld{sim: sim, res: res, cfg: cfg, dir: dir, file: map[uint64]walEvent{}, beh: map[string]string{}, seenV: map[string]bool{}}
	for k, v := range cfg.Types {
		w.beh[k] = v
	}
	var ops []walOp
	for _, raw := range c.Ops {
		var op walOp
		_ = json.Unmarshal(raw, &op)
		ops = append(ops, op)
	}
	sim.Go(func() {
		if err := w.open("", "", ""); err != nil {
			res.Harness = "open: " + err.Error()
			return
		}
		i := 0
		for i < len(ops) {
			// a maximal run of log/commit operations is executed concurrently by the logger tasks
			j := i
			for j < len(ops) && (ops[j].Kind == "log" || ops[j].Kind == "commit") {
				j++
			}
			if j > i {
				w.runLoggers(ops[i:j], i, c)
				i = j
				continue
			}
			w.opIndex = i
			w.curOp = fmt.Sprintf("op#%d %s", i, string(c.Ops[i]))
			op := ops[i]
			switch op.Kind {
			case "burst":
				for k := 0; k < op.Slot; k++ {
					w.nextTok++
					tok := fmt.Sprintf("%s-%d", op.Type, w.nextTok)
					commit, err := w.hydro.Log(op.Type, tok)
					if err != nil {
						continue
					}
					res.Probes["logged"]++
					if k%3 == 0 {
						_ = commit()
					}
				}
				res.Probes["burst"]++
				w.checkFile("after-burst")
			case "recover":
				w.recover(op)
			case "reopen":
				_ = w.kv.inner.Close()
				old := w.path()
				if err := w.open(old, op.Drop, op.Flip); err != nil {
					res.Harness = "reopen: " + err.Error()
					return
				}
				res.Probes["reopen"]++
			case "crash":
				w.crashReopen(op.Drop)
			}
			res.OpsRun++
			i++
		}
		// final recovery with every handler healthy: everything left must be replayed in order
		w.curOp = "final recovery"
		w.opIndex = len(ops)
		for _, t := range walTypes {
			w.beh[t] = "ok"
		}
		_ = w.kv.inner.Close()
		if err := w.open(w.path(), "", ""); err != nil {
			res.Harness = "final reopen: " + err.Error()
			return
		}
		w.recover(walOp{Kind: "recover"})
		if len(w.file) != 0 {
			w.viol("not-empty-after-healthy-recovery", "final", fmt.Sprintf("%d events remain after a recovery in which every handler succeeded", len(w.file)))
		}
		_ = w.kv.inner.Close()
	})
	sim.Run(nil, time.Hour)
	sim.Finish()
	if sim.Stuck {
		res.Stuck = sim.StuckWhy
	}
	res.Stats = sim.Stats
	res.TraceHash = sim.TraceHash()
	res.Trace = sim.Trace
	sim.Stop()
}

func (w *walWorld) crashReopen(drop string) {
	// the process dies between two kv calls: everything it was doing stops, the file is as it is
	old := w.path()
	w.sim.Crash(w.inst)
	w.mu.Lock()
	for _, cm := range w.commits {
		cm.done = true // commit functions of the dead process are gone with it
	}
	w.mu.Unlock()
	if err := w.open(old, drop, ""); err != nil {
		w.res.Harness = "crash reopen: " + err.Error()
	}
	w.res.Probes["crash_reopen"]++
	w.res.Nontrivial = true
}

func (w *walWorld) runLoggers(ops []walOp, base int, c *Case) {
	var wg sync.WaitGroup
	byTask := map[int][]int{}
	for k, op := range ops {
		byTask[op.Task] = append(byTask[op.Task], k)
	}
	hydro := w.hydro
	gen := w.gen
	var taskIDs []int
	for t := range byTask {
		taskIDs = append(taskIDs, t)
	}
	sort.Ints(taskIDs) // never let Go's map order decide in which order tasks start
	for _, t := range taskIDs {
		idxs := byTask[t]
		wg.Add(1)
		go func() {
			defer wg.Done()
			for _, k := range idxs {
				op := ops[k]
				switch op.Kind {
				case "log":
					w.mu.Lock()
					w.nextTok++
					tok := fmt.Sprintf("%s-%d", op.Type, w.nextTok)
					w.mu.Unlock()
					commit, err := hydro.Log(op.Type, tok)
					if err != nil {
						w.res.Probes["log_failed"]++
						continue
					}
					w.res.Probes["logged"]++
					w.res.Nontrivial = true
					w.mu.Lock()
					w.commits = append(w.commits, &walCommit{tok: tok, commit: commit, gen: gen})
					w.mu.Unlock()
				case "commit":
					w.mu.Lock()
					var open []*walCommit
					for _, cm := range w.commits {
						if !cm.done && cm.gen == gen {
							open = append(open, cm)
						}
					}
					var cm *walCommit
					if len(open) > 0 {
						cm = open[op.Slot%len(open)]
						cm.done = true
					}
					w.mu.Unlock()
					if cm == nil {
						continue
					}
					if err := cm.commit(); err != nil {
						w.res.Probes["commit_failed"]++
					} else {
						w.res.Probes["committed"]++
					}
				}
			}
		}()
	}
	wg.Wait()
	w.res.OpsRun += len(ops)
	w.checkFile("after-logging")
}

// checkFile compares the real file with the model.
func (w *walWorld) checkFile(after string) {
	ch, _ := w.kv.inner.Scan([]byte("/events/"))
	got := map[uint64]bool{}
	var order []uint64
	for e := range ch {
		k, _ := e.Pair()
		if id, ok := parseEventKey(string(k)); ok {
			got[id] = true
			order = append(order, id)
		}
	}
	for i := 1; i < len(order); i++ {
		if order[i] <= order[i-1] {
			w.viol("scan-not-in-id-order", after, fmt.Sprintf("scan returns ids %v", order))
		}
	}
	w.mu.Lock()
	defer w.mu.Unlock()
	for id := range w.file {
		if !got[id] {
			w.viol("event-lost", after, fmt.Sprintf("event %d (%s) was logged and not committed but is not in the file", id, w.file[id].Payload))
		}
	}
	for id := range got {
		if _, ok := w.file[id]; !ok {
			w.viol("event-resurrected", after, fmt.Sprintf("event %d is in the file although it was committed or never logged", id))
		}
	}
}

func (w *walWorld) recover(op walOp) {
	w.mu.Lock()
	w.calls = nil
	want, remain := w.expected()
	w.mu.Unlock()
	w.inRecover = true
	w.recSteps, w.recCrash = 0, op.CrashAt
	done := make(chan struct{})
	inst := w.inst
	go func() {
		defer close(done)
		w.hydro.Recover(context.Background())
	}()
	// wait for the recovery to finish, or for the process to die inside it
	for {
		select {
		case <-done:
		default:
			w.sim.Settle()
			if !inst.Dead {
				select {
				case <-done:
				default:
					time.Sleep(10 * time.Millisecond)
					continue
				}
			}
		}
		break
	}
	w.inRecover = false
	w.res.Probes["recoveries"]++
	w.mu.Lock()
	got := append([]string(nil), w.calls...)
	w.mu.Unlock()
	if inst.Dead {
		// died inside the recovery: what it did so far must be a prefix of the expected sequence
		w.res.Probes["crash_inside_recovery"]++
		w.res.Nontrivial = true
		if len(got) > len(want) || strings.Join(got, "|") != strings.Join(want[:len(got)], "|") {
			w.viol("recovery-order", "interrupted", fmt.Sprintf("interrupted recovery called %v, expected a prefix of %v", got, want))
		}
		old := w.path()
		if err := w.open(old, "", ""); err != nil {
			w.res.Harness = "reopen after crash in recovery: " + err.Error()
		}
		w.checkFile("after-interrupted-recovery")
		return
	}
	if strings.Join(got, "|") != strings.Join(want, "|") {
		w.viol("recovery-calls", "complete", fmt.Sprintf("recovery called handlers %v, expected exactly %v (uncommitted events in logging order, each once)", got, want))
	}
	if len(want) > 0 {
		w.res.Probes["recovery_with_events"]++
	}
	// events are removed exactly when handled successfully or declared unnecessary
	w.mu.Lock()
	for id := range w.file {
		if !remain[id] {
			w.mu.Unlock()
			w.viol("handled-event-not-removed", "complete", fmt.Sprintf("event %d was handled (or needed no handling) but is still in the log", id))
			w.mu.Lock()
		}
	}
	for id := range remain {
		if _, ok := w.file[id]; !ok {
			w.mu.Unlock()
			w.viol("unhandled-event-removed", "complete", fmt.Sprintf("event %d was not handled successfully but was removed from the log", id))
			w.mu.Lock()
		}
	}
	w.mu.Unlock()
	w.checkFile("after-recovery")
}
