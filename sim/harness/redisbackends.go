package harness

import (
	"context"
	"fmt"
	"time"

	"github.com/projecteru2/core/lock"
	coreredis "github.com/projecteru2/core/store/redis"
	coretypes "github.com/projecteru2/core/types"

	"verif/sim/simredis"
	"verif/sim/simrt"
)

// ---------------------------------------------------------------------------
// Redis backends of H-lock and H-eph: real Rediaron + real muroq/redislock + real
// go-redis over miniredis served through in-bubble pipes (simredis).
// ---------------------------------------------------------------------------

const redisLockPrefix = "/lock"

type redisLockBackend struct {
	sim    *simrt.Sim
	srv    *simredis.Server
	stores []*coreredis.Rediaron
	closers []func()
}

func newRediaron(srv *simredis.Server, inst *simrt.Instance, class string) (*coreredis.Rediaron, func(), error) {
	cli := srv.Client(inst, class)
	cfg := coretypes.Config{MaxConcurrency: 10000, Store: coretypes.Redis}
	cfg.Redis.LockPrefix = redisLockPrefix
	r, err := coreredis.NewWithClient(cfg, cli)
	return r, func() { _ = cli.Close() }, err
}

func init() {
	lockBackends["redis"] = func(sim *simrt.Sim, cfg lockCfg) lockBackend {
		srv, err := simredis.New(sim)
		if err != nil {
			panic(err)
		}
		b := &redisLockBackend{sim: sim, srv: srv}
		n := cfg.Contenders
		if cfg.Shared {
			n = 1
		}
		for i := 0; i < n; i++ {
			r, cl, err := newRediaron(srv, sim.NewInstance(), fmt.Sprintf("redis-c%d", i))
			if err != nil {
				panic(err)
			}
			b.stores = append(b.stores, r)
			b.closers = append(b.closers, cl)
		}
		return b
	}
	ephBackends["redis"] = func(sim *simrt.Sim, cfg ephCfg) ephBackend {
		srv, err := simredis.New(sim)
		if err != nil {
			panic(err)
		}
		b := &redisEph{sim: sim, srv: srv}
		for i := 0; i < cfg.Registrants; i++ {
			r, cl, err := newRediaron(srv, sim.NewInstance(), fmt.Sprintf("redis-r%d", i))
			if err != nil {
				panic(err)
			}
			b.stores = append(b.stores, r)
			b.closers = append(b.closers, cl)
		}
		return b
	}
}

func (b *redisLockBackend) lockKey(key string) string { return redisLockPrefix + "/" + key }

func (b *redisLockBackend) newLock(i int, key string, ttl time.Duration) (lock.DistributedLock, error) {
	return b.stores[i%len(b.stores)].CreateLock(key, ttl)
}
func (b *redisLockBackend) revoke(key string) bool { return false }
func (b *redisLockBackend) pause(i int, d time.Duration) {
	b.sim.Pause(fmt.Sprintf("redis-c%d", i), d)
}
func (b *redisLockBackend) holderToken(key string) int64 {
	if _, ok := b.srv.Get(b.lockKey(key)); ok {
		return 1
	}
	return 0
}
func (b *redisLockBackend) revokeToken(key string, _ int64) bool {
	if _, ok := b.srv.Get(b.lockKey(key)); !ok {
		return false
	}
	b.srv.Del(b.lockKey(key))
	return true
}

// The Redis lock has no keep-alive: the server drops it when its TTL has run out.
func (b *redisLockBackend) lossTime(_ int64, acquiredAt time.Time, ttl time.Duration) time.Time {
	if t := acquiredAt.Add(ttl); !t.After(time.Now()) {
		return t
	}
	return time.Time{}
}
func (b *redisLockBackend) keepsAlive() bool { return false }
func (b *redisLockBackend) close() {
	for _, c := range b.closers {
		c()
	}
	b.srv.Close()
}

// ---- ephemeral registrations on Redis ----

type redisEph struct {
	sim     *simrt.Sim
	srv     *simredis.Server
	stores  []*coreredis.Rediaron
	closers []func()
}

func (b *redisEph) start(i int, ctx context.Context, path string, hb time.Duration) (<-chan struct{}, func(), error) {
	return b.stores[i].StartEphemeral(ctx, path, hb)
}
func (b *redisEph) pause(i int, d time.Duration) { b.sim.Pause(fmt.Sprintf("redis-r%d", i), d) }
func (b *redisEph) revokeOwner(path string) bool {
	if _, ok := b.srv.Get(path); !ok {
		return false
	}
	b.srv.Del(path)
	return true
}

// owner: the registrant whose SET NX created the key that is there now.
func (b *redisEph) owner(path string) int {
	var who int
	if _, err := fmt.Sscanf(b.srv.OwnerOf(path), "redis-r%d", &who); err != nil {
		return -1
	}
	return who
}

// foreignMutations: EXPIRE / DEL of the key issued by a registrant while the key that
// was there had been created by somebody else.
func (b *redisEph) foreignMutations() []string { return b.srv.Foreign }

func (b *redisEph) close() {
	for _, c := range b.closers {
		c()
	}
	b.srv.Close()
}
