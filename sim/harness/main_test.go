package harness

import (
	"bufio"
	"encoding/json"
	"fmt"
	"math/rand/v2"
	"os"
	"path/filepath"
	"strconv"
	"strings"
	"testing"
	"time"
)

// TestSim is the single entry point. Environment:
//
//	VERIF_MODE=run     VERIF_HARNESS, VERIF_PROPERTY, VERIF_SEED0, VERIF_N, VERIF_TIER, VERIF_OUT, VERIF_REPLAY_DIR, VERIF_DEADLINE (unix seconds)
//	VERIF_MODE=replay  VERIF_REPLAY=<file> VERIF_OUT
func TestSim(t *testing.T) {
	mode := os.Getenv("VERIF_MODE")
	switch mode {
	case "run":
		runMany(t)
	case "replay":
		replay(t)
	case "":
		t.Skip("VERIF_MODE not set")
	default:
		t.Fatalf("unknown VERIF_MODE %q", mode)
	}
}

func atoi(s string, d int64) int64 {
	if s == "" {
		return d
	}
	n, err := strconv.ParseInt(s, 10, 64)
	if err != nil {
		return d
	}
	return n
}

func runMany(t *testing.T) {
	hn := os.Getenv("VERIF_HARNESS")
	h, ok := registry[hn]
	if !ok {
		t.Fatalf("unknown harness %q", hn)
	}
	prop := os.Getenv("VERIF_PROPERTY")
	tier := envOr("VERIF_TIER", "quick")
	seed0 := uint64(atoi(os.Getenv("VERIF_SEED0"), 1))
	n := int(atoi(os.Getenv("VERIF_N"), 10))
	stride := uint64(atoi(os.Getenv("VERIF_STRIDE"), 1))
	deadline := atoi(os.Getenv("VERIF_DEADLINE"), 0)
	outp := os.Getenv("VERIF_OUT")
	rdir := envOr("VERIF_REPLAY_DIR", os.TempDir())
	maxViol := int(atoi(os.Getenv("VERIF_MAX_VIOL"), 3))
	sweep := os.Getenv("VERIF_SWEEP")
	keep := os.Getenv("VERIF_TRACE") != ""
	var out *bufio.Writer
	if outp != "" {
		f, err := os.Create(outp)
		if err != nil {
			t.Fatal(err)
		}
		defer f.Close()
		out = bufio.NewWriter(f)
		defer out.Flush()
	} else {
		out = bufio.NewWriter(os.Stdout)
		defer out.Flush()
	}
	seen := map[string]bool{}
	found := 0
	var seedList []uint64
	if sl := os.Getenv("VERIF_SEED_LIST"); sl != "" {
		for _, x := range strings.Split(sl, ",") {
			seedList = append(seedList, uint64(atoi(x, 0)))
		}
		n = len(seedList)
	}
	// warm-up: the first run of a process is slow (page faults, lazy initialisation), and
	// slow segments are where the Go runtime's time-based preemption can reorder goroutines
	{
		wc := h.Generate(prop, 424242, tier)
		wc.Harness, wc.Property, wc.Tier, wc.Seed = hn, prop, tier, 424242
		_ = RunCase(t, wc, false)
	}
	for i := 0; i < n; i++ {
		if deadline > 0 && time.Now().Unix() >= deadline {
			break
		}
		seed := seed0 + uint64(i)*stride
		if seedList != nil {
			seed = seedList[i]
		}
		c := h.Generate(prop, seed, tier)
		c.Harness, c.Property, c.Tier, c.Seed = hn, prop, tier, seed
		cases := []*Case{c}
		if sweep != "" {
			cases = sweepCases(t, c, sweep, seed)
		}
		for ci, c := range cases {
			if deadline > 0 && ci > 0 && time.Now().Unix() >= deadline+30 {
				break
			}
			res := RunCase(t, c, keep)
			res.SweepPos = ci
			if i < 2 && ci == 0 || len(res.Violations) > 0 {
				res.Case = c
			}
			for _, v := range res.Violations {
				sg := sigOf(v)
				if seen[sg] || found >= maxViol {
					continue
				}
				seen[sg] = true
				found++
				small, runs := Shrink(t, c, sg, 150)
				final := RunCase(t, small, true)
				res.ShrinkRuns = runs
				if final.Harness == "" && sameFailure(final, sg) {
					p := filepath.Join(rdir, fmt.Sprintf("%s-%s-%d-%s.json", prop, hn, seed, hashStr(sg)))
					rf := map[string]any{"case": small, "expect_sig": sg, "expect_trace_hash": final.TraceHash, "violations": final.Violations, "trace": final.Trace, "original_seed": seed, "shrink_runs": runs}
					b, _ := json.MarshalIndent(rf, "", " ")
					if err := os.WriteFile(p, b, 0o644); err == nil {
						res.Replay = p
					}
				} else {
					vb, _ := json.Marshal(final.Violations)
					res.Harness = "shrunk case did not reproduce " + sg + " : " + final.Harness + " got " + string(vb) + fmt.Sprintf(" ops=%d shrinkruns=%d", len(small.Ops), runs)
				}
			}
			if os.Getenv("VERIF_TRACE") != "2" {
				res.Trace = nil
			}
			b, _ := json.Marshal(res)
			out.Write(b)
			out.WriteByte('\n')
		}
		if i%50 == 49 {
			out.Flush()
		}
	}
}

// sweepCases turns one generated history into a fault sweep: a fault-free run
// measures how many faultable seam calls the history makes (for "crash": how many the
// last operation makes), then one case per fault position is produced ("all") or k
// positions are sampled from the seed.
func sweepCases(t *testing.T, c *Case, sweep string, seed uint64) []*Case {
	kind, arg, _ := strings.Cut(sweep, ":")
	base := cloneCase(c)
	base.Plan.ErrAt = nil
	base.Plan.CrashAt = -1
	r0 := RunCase(t, base, false)
	n := r0.Stats.Faultable
	if kind == "crash" {
		n = r0.Probes["last_op_faultable_calls"]
	}
	out := []*Case{base}
	if r0.Harness != "" || n <= 0 {
		return out
	}
	var pos []int
	if arg == "all" {
		for k := 0; k < n; k++ {
			pos = append(pos, k)
		}
	} else {
		k := int(atoi(arg, 3))
		g := rand.New(rand.NewPCG(seed, 0x5eed))
		for j := 0; j < k; j++ {
			pos = append(pos, g.IntN(n))
		}
	}
	for _, k := range pos {
		cc := cloneCase(c)
		if kind == "crash" {
			cc.Plan.ErrAt = nil
			cc.Plan.CrashAt = k
		} else {
			cc.Plan.CrashAt = -1
			cc.Plan.ErrAt = []int{k}
		}
		out = append(out, cc)
	}
	return out
}

func replay(t *testing.T) {
	p := os.Getenv("VERIF_REPLAY")
	b, err := os.ReadFile(p)
	if err != nil {
		t.Fatal(err)
	}
	var rf struct {
		Case      *Case  `json:"case"`
		ExpectSig string `json:"expect_sig"`
		ExpectTH  string `json:"expect_trace_hash"`
	}
	if err := json.Unmarshal(b, &rf); err != nil {
		t.Fatal(err)
	}
	res := RunCase(t, rf.Case, true)
	out := map[string]any{"result": res, "reproduced": res.Harness == "" && sameFailure(res, rf.ExpectSig), "same_trace": res.TraceHash == rf.ExpectTH, "expect_sig": rf.ExpectSig}
	ob, _ := json.MarshalIndent(out, "", " ")
	if op := os.Getenv("VERIF_OUT"); op != "" {
		_ = os.WriteFile(op, ob, 0o644)
	} else {
		fmt.Println(string(ob))
	}
}
