package harness

import (
	"bufio"
	"encoding/json"
	"fmt"
	"os"
	"path/filepath"
	"runtime"
	"strconv"
	"strings"
	"testing"
	"time"
)

// TestSim is the single entry point. Environment:
//
//	VERIF_MODE=run     VERIF_HARNESS, VERIF_PROPERTY, VERIF_SEED0, VERIF_N, VERIF_TIER, VERIF_OUT, VERIF_REPLAY_DIR, VERIF_DEADLINE (unix seconds)
//	VERIF_MODE=replay  VERIF_REPLAY=<file> VERIF_OUT
func TestSim(t *testing.T) {
	mode := os.Getenv("VERIF_MODE")
	switch mode {
	case "run":
		runMany(t)
	case "replay":
		replay(t)
	case "":
		t.Skip("VERIF_MODE not set")
	default:
		t.Fatalf("unknown VERIF_MODE %q", mode)
	}
}

func atoi(s string, d int64) int64 {
	if s == "" {
		return d
	}
	n, err := strconv.ParseInt(s, 10, 64)
	if err != nil {
		return d
	}
	return n
}

func runMany(t *testing.T) {
	hn := os.Getenv("VERIF_HARNESS")
	h, ok := registry[hn]
	if !ok {
		t.Fatalf("unknown harness %q", hn)
	}
	prop := os.Getenv("VERIF_PROPERTY")
	tier := envOr("VERIF_TIER", "quick")
	seed0 := uint64(atoi(os.Getenv("VERIF_SEED0"), 1))
	n := int(atoi(os.Getenv("VERIF_N"), 10))
	stride := uint64(atoi(os.Getenv("VERIF_STRIDE"), 1))
	deadline := atoi(os.Getenv("VERIF_DEADLINE"), 0)
	outp := os.Getenv("VERIF_OUT")
	rdir := envOr("VERIF_REPLAY_DIR", os.TempDir())
	maxViol := int(atoi(os.Getenv("VERIF_MAX_VIOL"), 3))
	keep := os.Getenv("VERIF_TRACE") != ""
	var out *bufio.Writer
	if outp != "" {
		f, err := os.Create(outp)
		if err != nil {
			t.Fatal(err)
		}
		defer f.Close()
		out = bufio.NewWriter(f)
		defer out.Flush()
	} else {
		out = bufio.NewWriter(os.Stdout)
		defer out.Flush()
	}
	seen := map[string]bool{}
	found := 0
	var seedList []uint64
	if sl := os.Getenv("VERIF_SEED_LIST"); sl != "" {
		for _, x := range strings.Split(sl, ",") {
			seedList = append(seedList, uint64(atoi(x, 0)))
		}
		n = len(seedList)
	}
	for i := 0; i < n; i++ {
		if deadline > 0 && time.Now().Unix() >= deadline {
			break
		}
		seed := seed0 + uint64(i)*stride
		if seedList != nil {
			seed = seedList[i]
		}
		c := h.Generate(prop, seed, tier)
		c.Harness, c.Property, c.Tier, c.Seed = hn, prop, tier, seed
		res := RunCase(t, c, keep)
		if i < 2 {
			res.Case = c
		}
		for _, v := range res.Violations {
			sg := sigOf(v)
			if seen[sg] || found >= maxViol {
				continue
			}
			seen[sg] = true
			found++
			small, runs := Shrink(t, c, sg, 150)
			// pin the schedule actually taken so that the file is self-contained
			final := RunCase(t, small, true)
			res.ShrinkRuns = runs
			if final.Harness == "" && sameFailure(final, sg) {
				p := filepath.Join(rdir, fmt.Sprintf("%s-%s-%d-%s.json", prop, hn, seed, hashStr(sg)))
				rf := map[string]any{"case": small, "expect_sig": sg, "expect_trace_hash": final.TraceHash, "violations": final.Violations, "trace": final.Trace, "original_seed": seed, "shrink_runs": runs}
				b, _ := json.MarshalIndent(rf, "", " ")
				if err := os.WriteFile(p, b, 0o644); err == nil {
					res.Replay = p
				}
			} else {
				res.Harness = "shrunk case did not reproduce " + sg + " : " + final.Harness
			}
		}
		res.Trace = nil
		b, _ := json.Marshal(res)
		out.Write(b)
		out.WriteByte('\n')
		if i%50 == 49 {
			out.Flush()
			runtime.GC()
		}
	}
}

func replay(t *testing.T) {
	p := os.Getenv("VERIF_REPLAY")
	b, err := os.ReadFile(p)
	if err != nil {
		t.Fatal(err)
	}
	var rf struct {
		Case      *Case  `json:"case"`
		ExpectSig string `json:"expect_sig"`
		ExpectTH  string `json:"expect_trace_hash"`
	}
	if err := json.Unmarshal(b, &rf); err != nil {
		t.Fatal(err)
	}
	res := RunCase(t, rf.Case, true)
	out := map[string]any{"result": res, "reproduced": res.Harness == "" && sameFailure(res, rf.ExpectSig), "same_trace": res.TraceHash == rf.ExpectTH, "expect_sig": rf.ExpectSig}
	ob, _ := json.MarshalIndent(out, "", " ")
	if op := os.Getenv("VERIF_OUT"); op != "" {
		_ = os.WriteFile(op, ob, 0o644)
	} else {
		fmt.Println(string(ob))
	}
}
