package harness

import (
	"context"
	"encoding/json"
	"fmt"
	"math"
	"math/rand/v2"
	"sort"
	"strings"
	"time"

	enginetypes "github.com/projecteru2/core/engine/types"
	"github.com/projecteru2/core/resource/cobalt"
	"github.com/projecteru2/core/resource/plugins"
	"github.com/projecteru2/core/resource/plugins/cpumem"
	cpumemtypes "github.com/projecteru2/core/resource/plugins/cpumem/types"
	plugintypes "github.com/projecteru2/core/resource/plugins/types"
	resourcetypes "github.com/projecteru2/core/resource/types"
	"github.com/projecteru2/core/store/etcdv3/meta"
	coretypes "github.com/projecteru2/core/types"
	"github.com/projecteru2/core/verifrt"

	"verif/sim/simetcd"
	"verif/sim/simrt"
)

// ---------------------------------------------------------------------------
// H-res: real cobalt + real cpumem plugin over the simulated plugin store.
// ---------------------------------------------------------------------------

type resCfg struct {
	ShareBase int       `json:"share_base"`
	MaxShare  int       `json:"max_share"`
	Nodes     []resNode `json:"nodes"`
	Shadow    bool      `json:"shadow,omitempty"` // a second, bookkeeping-free plugin next to cpumem
}

type resNode struct {
	Name    string   `json:"name"`
	CPU     string   `json:"cpu"`    // "0:100,1:100"
	Memory  int64    `json:"memory"` // bytes
	NUMACPU []string `json:"numa_cpu,omitempty"`
	NUMAMem []string `json:"numa_mem,omitempty"`
}

type resReq struct {
	Bind     bool    `json:"bind"`
	Keep     bool    `json:"keep,omitempty"`
	CPUReq   float64 `json:"cpu_req"`
	CPULimit float64 `json:"cpu_limit,omitempty"`
	MemReq   int64   `json:"mem_req"`
	MemLimit int64   `json:"mem_limit,omitempty"`
}

type resOp struct {
	Kind  string `json:"kind"` // alloc | rollback_alloc | release | realloc | rollback_realloc | setcap | remap | capacity | info | corrupt_fix | direct
	Node  int    `json:"node"`
	Count int    `json:"count,omitempty"`
	Req   resReq `json:"req"`
	Slot  int    `json:"slot,omitempty"` // workload slot (mod live count)
	// setcap
	Delta  bool   `json:"delta,omitempty"`
	Incr   bool   `json:"incr,omitempty"`
	CapCPU string `json:"cap_cpu,omitempty"`
	CapMem int64  `json:"cap_mem,omitempty"`
	// corrupt
	Pattern int   `json:"pattern,omitempty"`
	Amount  int64 `json:"amount,omitempty"`
}

type resH struct{}

func init() { Register("res", resH{}) }

const mib = int64(1 << 20)

func (resH) Generate(property string, seed uint64, tier string) *Case {
	g := rand.New(rand.NewPCG(seed, 0xabcdef12345))
	cfg := resCfg{ShareBase: 100, MaxShare: -1}
	switch g.IntN(8) {
	case 0:
		cfg.ShareBase = 10
	case 1:
		cfg.ShareBase = 1000
	}
	switch g.IntN(6) {
	case 0:
		cfg.MaxShare = 1
	case 1:
		cfg.MaxShare = 2
	case 2:
		cfg.MaxShare = 3
	}
	if property == "C33" {
		// C33 is stated for whole-core shares
		cfg.MaxShare = -1
	}
	nn := 1 + g.IntN(2)
	for i := 0; i < nn; i++ {
		n := resNode{Name: fmt.Sprintf("n%d", i)}
		cores := 1 + g.IntN(6)
		var parts []string
		for c := 0; c < cores; c++ {
			share := cfg.ShareBase
			if property != "C33" {
				switch g.IntN(10) {
				case 0:
					share = cfg.ShareBase * 2 // oversold core
				case 1:
					share = cfg.ShareBase / 2 // half core
				case 2:
					share = cfg.ShareBase + cfg.ShareBase/2
				}
			} else if g.IntN(5) == 0 {
				share = cfg.ShareBase * 2
			}
			parts = append(parts, fmt.Sprintf("%d:%d", c, share))
		}
		n.CPU = strings.Join(parts, ",")
		n.Memory = int64(1+g.IntN(64)) * 256 * mib
		if g.IntN(3) == 0 {
			n.Memory = int64(2+g.IntN(10)) * 256 * mib // memory pressure
		}
		if cores >= 2 && (g.IntN(3) == 0 || (property == "C04" && g.IntN(2) == 0)) {
			// two NUMA nodes
			half := cores / 2
			var a, b []string
			for c := 0; c < cores; c++ {
				if c < half {
					a = append(a, fmt.Sprint(c))
				} else {
					b = append(b, fmt.Sprint(c))
				}
			}
			n.NUMACPU = []string{strings.Join(a, ","), strings.Join(b, ",")}
			if g.IntN(2) == 0 {
				m0 := n.Memory / 2
				if g.IntN(2) == 0 {
					m0 = n.Memory / 4
				}
				n.NUMAMem = []string{fmt.Sprint(m0), fmt.Sprint(n.Memory - m0)}
			}
		}
		cfg.Nodes = append(cfg.Nodes, n)
	}
	nops := 4 + g.IntN(12)
	if tier == "thorough" {
		nops = 4 + g.IntN(26)
	}
	var ops []json.RawMessage
	for i := 0; i < nops; i++ {
		ops = append(ops, mustJSON(genResOp(g, &cfg, property)))
	}
	plan := simrt.Plan{Policy: "fifo", CrashAt: -1}
	if g.IntN(2) == 0 {
		plan.MapSeed = g.Uint64() | 1
	}
	// 0-2 store errors somewhere in the history (about 3 store calls per op)
	if property != "C06" && property != "C07" {
		for k := g.IntN(3); k > 0; k-- {
			plan.ErrAt = append(plan.ErrAt, 2*len(cfg.Nodes)+g.IntN(nops*3))
		}
	}
	if property == "C08" && g.IntN(3) == 0 {
		// the manager's multi-plugin paths: a second party that can fail after cpumem wrote
		cfg.Shadow = true
		plan.ErrAt = append(plan.ErrAt, 4*len(cfg.Nodes)+g.IntN(nops*5))
	}
	return &Case{Plan: plan, Cfg: mustJSON(cfg), Ops: ops}
}

func genReq(g *rand.Rand, cfg *resCfg, property string) resReq {
	r := resReq{}
	sb := cfg.ShareBase
	r.Bind = g.IntN(3) != 0
	// CPU on the share base's grid
	switch g.IntN(6) {
	case 0:
		r.CPUReq = float64(1+g.IntN(3)) // whole cores
	case 1:
		r.CPUReq = float64(1+g.IntN(sb-1)) / float64(sb) // pure fragment
	default:
		r.CPUReq = float64(1+g.IntN(3*sb)) / float64(sb)
	}
	if property == "C06" {
		switch g.IntN(5) {
		case 0:
			r.CPUReq = 1 / float64(sb*10) // smaller than one piece
			r.Bind = true
		case 1:
			r.CPUReq = 1 / float64(sb*2)
			r.Bind = true
		case 2:
			r.CPUReq = float64(g.IntN(3)) + 1/float64(sb*10)
			r.Bind = true
		}
	}
	if property == "C05" && g.IntN(6) == 0 {
		// off the share base's grid (clear of the half-way point): "to the nearest piece"
		r.CPUReq = (float64(1+g.IntN(3*sb)) + []float64{0.3, 0.7}[g.IntN(2)]) / float64(sb)
		r.Bind = true
	}
	if !r.Bind && g.IntN(4) == 0 {
		r.CPUReq = 0
	}
	if g.IntN(4) == 0 {
		r.CPULimit = r.CPUReq
	}
	switch g.IntN(5) {
	case 0:
		r.MemReq = 0
	default:
		r.MemReq = int64(1+g.IntN(24)) * 128 * mib
	}
	if g.IntN(4) == 0 {
		r.MemLimit = r.MemReq
	}
	return r
}

func genResOp(g *rand.Rand, cfg *resCfg, property string) resOp {
	op := resOp{Node: g.IntN(len(cfg.Nodes)), Slot: g.IntN(64)}
	x := g.IntN(100)
	switch {
	case x < 32:
		op.Kind = "alloc"
		op.Count = 1 + g.IntN(3)
		op.Req = genReq(g, cfg, property)
	case x < 40:
		op.Kind = "rollback_alloc"
		op.Count = 1 + g.IntN(2)
	case x < 50:
		op.Kind = "release"
	case x < 68:
		op.Kind = "realloc"
		sb := cfg.ShareBase
		r := resReq{Keep: g.IntN(2) == 0}
		if !r.Keep {
			r.Bind = g.IntN(2) == 0
		}
		switch g.IntN(4) {
		case 0:
			r.CPUReq = 0
		case 1:
			r.CPUReq = -float64(1+g.IntN(sb)) / float64(sb)
		default:
			r.CPUReq = float64(1+g.IntN(2*sb)) / float64(sb)
		}
		if property == "C33" && g.IntN(2) == 0 {
			r.Keep, r.CPUReq = true, 0
		}
		if g.IntN(5) == 0 {
			// the limit moves on its own (a bound workload's request follows its limit up)
			r.CPULimit = float64(1+g.IntN(2*sb)) / float64(sb)
			if g.IntN(3) == 0 {
				r.CPUReq = 0
			}
		}
		switch g.IntN(3) {
		case 0:
			r.MemReq = 0
		case 1:
			r.MemReq = -int64(1+g.IntN(4)) * 128 * mib
		default:
			r.MemReq = int64(1+g.IntN(8)) * 128 * mib
		}
		op.Req = r
	case x < 73:
		op.Kind = "rollback_realloc"
	case x < 79:
		op.Kind = "setcap"
		op.Delta = g.IntN(3) != 0
		op.Incr = g.IntN(2) == 0
		if g.IntN(2) == 0 {
			op.CapCPU = fmt.Sprintf("%d:%d", g.IntN(7), cfg.ShareBase)
		}
		if g.IntN(2) == 0 || op.CapCPU == "" {
			op.CapMem = int64(1+g.IntN(8)) * 256 * mib
		}
	case x < 85:
		op.Kind = "remap"
	case x < 93:
		op.Kind = "capacity"
		op.Req = genReq(g, cfg, property)
	case x < 96:
		op.Kind = "info"
	default:
		op.Kind = "corrupt_fix"
		op.Pattern = g.IntN(7)
		op.Amount = int64(1 + g.IntN(150))
	}
	if property == "C06" && g.IntN(3) == 0 {
		op.Kind = "direct"
		op.Count = 1 + g.IntN(3)
		op.Req = genReq(g, cfg, property)
	}
	if property == "C15" && g.IntN(3) == 0 {
		op.Kind = "corrupt_fix"
		op.Pattern = g.IntN(7)
		op.Amount = int64(1 + g.IntN(150))
	}
	if property == "C07" && g.IntN(3) == 0 {
		op.Kind = "capacity"
		op.Req = genReq(g, cfg, property)
	}
	if property == "C32" && g.IntN(4) == 0 {
		op.Kind = "remap"
	}
	return op
}

// ---- the world ----

type resWL struct {
	ID     string
	Node   string
	Raw    resourcetypes.Resources // as returned by the manager
	Res    cpumemtypes.WorkloadResource
	Engine resourcetypes.Resources
	Touched bool // re-allocated since its allocation
}

type resModelNode struct {
	Name string
	WLs  []*resWL
}

type tickPanic struct{}

// guardPlugin wraps the real plugin at the party boundary: panics and step-budget
// overruns inside plugin code become errors plus a C06 violation.
type guardPlugin struct {
	plugins.Plugin
	w *resWorld
}

const tickBudget = 1_000_000

func (gp *guardPlugin) guard(what string, f func() error) (err error) {
	gp.w.ticks = 0
	gp.w.inPlugin++
	defer func() {
		gp.w.inPlugin--
		if p := recover(); p != nil {
			if _, ok := p.(tickPanic); ok {
				gp.w.viol("C06", "no-termination", what, fmt.Sprintf("%s did not finish within %d loop iterations (%s)", what, tickBudget, gp.w.curOp))
				err = fmt.Errorf("sim: %s exceeded the step budget", what)
				return
			}
			gp.w.viol("C06", "panic", what, fmt.Sprintf("%s panicked: %v (%s)", what, p, gp.w.curOp))
			err = fmt.Errorf("sim: %s panicked: %v", what, p)
		}
	}()
	return f()
}

func (gp *guardPlugin) CalculateDeploy(ctx context.Context, nodename string, deployCount int, req plugintypes.WorkloadResourceRequest) (r *plugintypes.CalculateDeployResponse, err error) {
	err = gp.guard("CalculateDeploy", func() (e error) { r, e = gp.Plugin.CalculateDeploy(ctx, nodename, deployCount, req); return })
	return
}

func (gp *guardPlugin) CalculateRealloc(ctx context.Context, nodename string, res plugintypes.WorkloadResource, req plugintypes.WorkloadResourceRequest) (r *plugintypes.CalculateReallocResponse, err error) {
	err = gp.guard("CalculateRealloc", func() (e error) { r, e = gp.Plugin.CalculateRealloc(ctx, nodename, res, req); return })
	return
}

func (gp *guardPlugin) GetNodesDeployCapacity(ctx context.Context, nodenames []string, req plugintypes.WorkloadResourceRequest) (r *plugintypes.GetNodesDeployCapacityResponse, err error) {
	err = gp.guard("GetNodesDeployCapacity", func() (e error) { r, e = gp.Plugin.GetNodesDeployCapacity(ctx, nodenames, req); return })
	return
}

func (gp *guardPlugin) CalculateRemap(ctx context.Context, nodename string, wr map[string]plugintypes.WorkloadResource) (r *plugintypes.CalculateRemapResponse, err error) {
	err = gp.guard("CalculateRemap", func() (e error) { r, e = gp.Plugin.CalculateRemap(ctx, nodename, wr); return })
	return
}

type resWorld struct {
	sim      *simrt.Sim
	res      *Result
	prop     string
	cfg      resCfg
	ccfg     coretypes.Config
	pstore   *simetcd.Server
	mgr      *cobalt.Manager
	nodes    []*resModelNode
	nextID   int
	ticks    int
	inPlugin int
	curOp    string
	opIndex  int
	lastRe   *reallocUndo
	lastAl   []*resWL
	seenV    map[string]bool
}

type reallocUndo struct {
	wl    *resWL
	old   resWL
	delta resourcetypes.Resources
}

func (w *resWorld) viol(prop, rule, sig, detail string) {
	k := prop + rule + sig
	if w.seenV[k] {
		return
	}
	w.seenV[k] = true
	w.res.Violations = append(w.res.Violations, Violation{Property: prop, Rule: rule, Sig: sig, Detail: detail, OpIndex: w.opIndex, Step: w.sim.Stats.Steps})
}

func rawReq(r resReq) resourcetypes.Resources {
	p := resourcetypes.RawParams{
		"cpu-request":    r.CPUReq,
		"cpu-limit":      r.CPULimit,
		"memory-request": r.MemReq,
		"memory-limit":   r.MemLimit,
	}
	// clients write the options they do not want either not at all or as an explicit false;
	// which of the two is a function of the request, so that a case replays
	explicit := (int64(r.CPUReq*100)+r.MemReq/mib)%2 == 0
	if r.Bind {
		p["cpu-bind"] = true
	} else if explicit {
		p["cpu-bind"] = false
	}
	if r.Keep {
		p["keep-cpu-bind"] = true
	} else if explicit {
		p["keep-cpu-bind"] = false
	}
	return resourcetypes.Resources{"cpumem": p}
}

type nodeRecord struct {
	Capacity *cpumemtypes.NodeResource `json:"capacity"`
	Usage    *cpumemtypes.NodeResource `json:"usage"`
}

func (w *resWorld) record(node string) (*nodeRecord, string) {
	snap := w.pstore.Snapshot("/resource/cpumem/" + node)
	raw, ok := snap["/resource/cpumem/"+node]
	if !ok {
		return nil, ""
	}
	r := &nodeRecord{}
	if err := json.Unmarshal([]byte(raw), r); err != nil {
		return nil, raw
	}
	return r, raw
}

func canonRecord(r *nodeRecord) string {
	if r == nil {
		return "<nil>"
	}
	f := func(n *cpumemtypes.NodeResource, usage bool) string {
		if n == nil {
			return "nil"
		}
		var sb strings.Builder
		cpu := n.CPU
		if math.Abs(cpu) < 1e-9 {
			cpu = 0 // -0.0 and 0.0 are the same amount
		}
		fmt.Fprintf(&sb, "cpu=%.6f mem=%d cores[", cpu, n.Memory)
		for _, k := range sortedKeys(n.CPUMap) {
			if n.CPUMap[k] != 0 || !usage {
				fmt.Fprintf(&sb, "%s:%d ", k, n.CPUMap[k])
			}
		}
		sb.WriteString("] numamem[")
		for _, k := range sortedKeys(n.NUMAMemory) {
			if n.NUMAMemory[k] != 0 {
				fmt.Fprintf(&sb, "%s:%d ", k, n.NUMAMemory[k])
			}
		}
		sb.WriteString("] numa[")
		for _, k := range sortedKeys(n.NUMA) {
			fmt.Fprintf(&sb, "%s:%s ", k, n.NUMA[k])
		}
		sb.WriteString("]")
		return sb.String()
	}
	// a usage entry of zero and an absent entry mean the same thing
	return "cap{" + f(r.Capacity, false) + "} use{" + f(r.Usage, true) + "}"
}

// sum of the model's live workloads on a node.
func (w *resWorld) modelUsage(n *resModelNode) (cpu float64, cores map[string]int, mem int64, numa map[string]int64) {
	cores = map[string]int{}
	numa = map[string]int64{}
	for _, wl := range n.WLs {
		cpu += wl.Res.CPURequest
		mem += wl.Res.MemoryRequest
		for c, p := range wl.Res.CPUMap {
			cores[c] += p
		}
		for k, v := range wl.Res.NUMAMemory {
			numa[k] += v
		}
	}
	return
}

// checkBookkeeping is C08's invariant: recorded usage == sum over live workloads.
func (w *resWorld) checkBookkeeping(n *resModelNode, after string) {
	rec, _ := w.record(n.Name)
	if rec == nil || rec.Usage == nil {
		return
	}
	cpu, cores, mem, numa := w.modelUsage(n)
	if math.Abs(rec.Usage.CPU-cpu) > 1e-6 {
		w.viol("C08", "usage-cpu", after, fmt.Sprintf("node %s after %s: recorded cpu usage %.9f != sum of live workloads %.9f", n.Name, w.curOp, rec.Usage.CPU, cpu))
	}
	if rec.Usage.Memory != mem {
		w.viol("C08", "usage-memory", after, fmt.Sprintf("node %s after %s: recorded memory usage %d != sum %d", n.Name, w.curOp, rec.Usage.Memory, mem))
	}
	ks := map[string]bool{}
	for k := range cores {
		ks[k] = true
	}
	for k := range rec.Usage.CPUMap {
		ks[k] = true
	}
	for _, k := range sortedKeys(ks) {
		if rec.Usage.CPUMap[k] != cores[k] {
			w.viol("C08", "usage-core", after, fmt.Sprintf("node %s after %s: core %s recorded pieces %d != sum %d", n.Name, w.curOp, k, rec.Usage.CPUMap[k], cores[k]))
			break
		}
	}
	nk := map[string]bool{}
	for k := range numa {
		nk[k] = true
	}
	for k := range rec.Usage.NUMAMemory {
		nk[k] = true
	}
	for _, k := range sortedKeys(nk) {
		if rec.Usage.NUMAMemory[k] != numa[k] {
			w.viol("C08", "usage-numa-memory", after, fmt.Sprintf("node %s after %s: NUMA node %s recorded memory %d != sum %d", n.Name, w.curOp, k, rec.Usage.NUMAMemory[k], numa[k]))
			break
		}
	}
}

func (resH) Execute(c *Case, res *Result) {
	var cfg resCfg
	_ = json.Unmarshal(c.Cfg, &cfg)
	sim := simrt.New(c.Seed, c.Plan)
	sim.KeepTrace = traceWanted
	w := &resWorld{sim: sim, res: res, prop: c.Property, cfg: cfg, seenV: map[string]bool{}}
	verifrt.Permute = sim.Permute
	verifrt.Tick = func() {
		if w.inPlugin > 0 {
			w.ticks++
			if w.ticks > tickBudget {
				panic(tickPanic{})
			}
		}
	}
	defer func() { verifrt.Permute, verifrt.Tick = nil, nil }()
	inst := sim.NewInstance()
	w.pstore = simetcd.NewServer(sim, "pstore")
	h := w.pstore.NewClient(inst)
	w.ccfg = coretypes.Config{GlobalTimeout: 300 * time.Second, LockTimeout: 30 * time.Second, MaxConcurrency: 1000}
	w.ccfg.Scheduler.ShareBase = cfg.ShareBase
	w.ccfg.Scheduler.MaxShare = cfg.MaxShare
	w.ccfg.Scheduler.MaxDeployCount = 10000
	kv := meta.NewETCDWithClient(h.Client, coretypes.EtcdConfig{})
	plugin := cpumem.NewPluginWithStore(w.ccfg, kv)
	mgr, _ := cobalt.New(w.ccfg)
	mgr.AddPlugins(&guardPlugin{Plugin: plugin, w: w})
	if cfg.Shadow {
		mgr.AddPlugins(&shadowPlugin{sim: sim, inst: inst})
		res.Probes["shadow_plugin_runs"]++
	}
	w.mgr = mgr

	var ops []resOp
	for _, raw := range c.Ops {
		var op resOp
		_ = json.Unmarshal(raw, &op)
		ops = append(ops, op)
	}
	sim.Go(func() {
		ctx := context.Background()
		// setup: add nodes without faults
		sim.SetFaultsEnabled(false)
		for _, n := range cfg.Nodes {
			p := resourcetypes.RawParams{"cpu": n.CPU, "memory": n.Memory}
			if len(n.NUMACPU) > 0 {
				p["numa-cpu"] = n.NUMACPU
			}
			if len(n.NUMAMem) > 0 {
				p["numa-memory"] = n.NUMAMem
			}
			if _, err := mgr.AddNode(ctx, n.Name, resourcetypes.Resources{"cpumem": p}, &enginetypes.Info{}); err != nil {
				res.Harness = "setup AddNode failed: " + err.Error()
				return
			}
			w.nodes = append(w.nodes, &resModelNode{Name: n.Name})
		}
		sim.SetFaultsEnabled(true)
		for i, op := range ops {
			w.opIndex = i
			w.curOp = fmt.Sprintf("op#%d %s", i, string(c.Ops[i]))
			w.runOp(ctx, op)
			res.OpsRun++
			if len(res.Violations) > 0 && res.Violations[0].Property == c.Property {
				// keep going: later ops may show more, but bound the work
			}
			st := ""
			for _, n := range w.nodes {
				rec, _ := w.record(n.Name)
				st += canonRecord(rec)
			}
			res.StateHash = append(res.StateHash, hashStr(st))
		}
	})
	sim.Run(nil, 2*time.Hour)
	sim.Finish()
	if sim.Stuck {
		res.Stuck = sim.StuckWhy
	}
	res.Stats = sim.Stats
	res.TraceHash = sim.TraceHash()
	res.Trace = sim.Trace
	sim.Stop()
	h.Close()
}

func isInjected(err error) bool {
	return err != nil && strings.Contains(err.Error(), "sim: injected fault")
}

func parseWL(raw resourcetypes.RawParams) cpumemtypes.WorkloadResource {
	var r cpumemtypes.WorkloadResource
	_ = r.Parse(raw)
	if r.CPUMap == nil {
		r.CPUMap = cpumemtypes.CPUMap{}
	}
	if r.NUMAMemory == nil {
		r.NUMAMemory = cpumemtypes.NUMAMemory{}
	}
	return r
}

func (w *resWorld) probe(name string) { w.res.Probes[name]++ }

func (w *resWorld) runOp(ctx context.Context, op resOp) {
	n := w.nodes[op.Node%len(w.nodes)]
	pre, _ := w.record(n.Name)
	preS := canonRecord(pre)
	unchanged := func(what string) {
		post, _ := w.record(n.Name)
		if s := canonRecord(post); s != preS {
			w.viol("C08", "failed-op-changed-record", what, fmt.Sprintf("node %s: %s reported failure but the record changed\n before %s\n after  %s", n.Name, w.curOp, preS, s))
		}
	}
	switch op.Kind {
	case "alloc":
		wps, eps, err := w.mgr.Alloc(ctx, n.Name, op.Count, rawReq(op.Req))
		if err != nil {
			if isInjected(err) {
				w.probe("alloc_injected_failure")
			} else {
				w.probe("alloc_refused")
			}
			unchanged("alloc")
			return
		}
		w.probe("alloc_ok")
		w.res.Nontrivial = true
		var wls []*resWL
		for i := range wps {
			w.nextID++
			wl := &resWL{ID: fmt.Sprintf("w%d", w.nextID), Node: n.Name, Raw: wps[i], Engine: eps[i], Res: parseWL(wps[i]["cpumem"])}
			wls = append(wls, wl)
		}
		w.checkAlloc(n, pre, op, wls)
		n.WLs = append(n.WLs, wls...)
		w.lastAl = wls
		w.checkBookkeeping(n, "alloc")
	case "rollback_alloc":
		// only workloads of the last allocation that are still live and untouched can be rolled back
		liveAl := w.lastAl[:0]
		for _, v := range w.lastAl {
			if nn := w.nodeOf(v.Node); nn != nil {
				for _, x := range nn.WLs {
					if x == v && !v.Touched {
						liveAl = append(liveAl, v)
					}
				}
			}
		}
		w.lastAl = liveAl
		if len(w.lastAl) == 0 {
			return
		}
		k := op.Count
		if k > len(w.lastAl) {
			k = len(w.lastAl)
		}
		victims := w.lastAl[len(w.lastAl)-k:]
		nn := w.nodeOf(victims[0].Node)
		pre2, _ := w.record(nn.Name)
		var raws []resourcetypes.Resources
		for _, v := range victims {
			raws = append(raws, v.Raw)
		}
		err := w.mgr.RollbackAlloc(ctx, nn.Name, raws)
		if err != nil {
			post, _ := w.record(nn.Name)
			if canonRecord(post) != canonRecord(pre2) {
				w.viol("C08", "failed-op-changed-record", "rollback_alloc", fmt.Sprintf("node %s: failed %s changed the record", nn.Name, w.curOp))
			}
			return
		}
		w.probe("rollback_alloc_ok")
		w.removeWLs(nn, victims)
		w.lastAl = w.lastAl[:len(w.lastAl)-k]
		w.lastRe = nil
		w.checkBookkeeping(nn, "rollback_alloc")
	case "release":
		if len(n.WLs) == 0 {
			return
		}
		v := n.WLs[op.Slot%len(n.WLs)]
		_, _, err := w.mgr.SetNodeResourceUsage(ctx, n.Name, nil, nil, []resourcetypes.Resources{v.Raw}, true, plugins.Decr)
		if err != nil {
			unchanged("release")
			return
		}
		w.probe("release_ok")
		w.removeWLs(n, []*resWL{v})
		w.checkBookkeeping(n, "release")
	case "realloc":
		if len(n.WLs) == 0 {
			return
		}
		v := n.WLs[op.Slot%len(n.WLs)]
		ep, delta, nw, err := w.mgr.Realloc(ctx, n.Name, v.Raw, rawReq(op.Req))
		if err != nil {
			if isInjected(err) {
				w.probe("realloc_injected_failure")
			} else {
				w.probe("realloc_refused")
			}
			unchanged("realloc")
			return
		}
		w.probe("realloc_ok")
		w.res.Nontrivial = true
		old := *v
		v.Touched = true
		v.Raw, v.Engine, v.Res = nw, ep, parseWL(nw["cpumem"])
		w.lastRe = &reallocUndo{wl: v, old: old, delta: delta}
		w.checkRealloc(n, pre, op, &old, v)
		w.checkBookkeeping(n, "realloc")
	case "rollback_realloc":
		if w.lastRe == nil {
			return
		}
		u := w.lastRe
		nn := w.nodeOf(u.wl.Node)
		live := false
		for _, x := range nn.WLs {
			if x == u.wl {
				live = true
			}
		}
		if !live {
			return
		}
		pre2, _ := w.record(nn.Name)
		if err := w.mgr.RollbackRealloc(ctx, nn.Name, u.delta); err != nil {
			post, _ := w.record(nn.Name)
			if canonRecord(post) != canonRecord(pre2) {
				w.viol("C08", "failed-op-changed-record", "rollback_realloc", fmt.Sprintf("node %s: failed %s changed the record", nn.Name, w.curOp))
			}
			return
		}
		w.probe("rollback_realloc_ok")
		*u.wl = u.old
		w.lastRe = nil
		w.checkBookkeeping(nn, "rollback_realloc")
	case "setcap":
		p := resourcetypes.RawParams{}
		if op.CapCPU != "" {
			p["cpu"] = op.CapCPU
		}
		if op.CapMem != 0 {
			p["memory"] = op.CapMem
		}
		_, _, err := w.mgr.SetNodeResourceCapacity(ctx, n.Name, nil, resourcetypes.Resources{"cpumem": p}, op.Delta, op.Incr)
		if err != nil {
			unchanged("setcap")
			return
		}
		w.probe("setcap_ok")
		w.checkBookkeeping(n, "setcap")
	case "remap":
		w.checkRemap(ctx, n)
	case "capacity":
		w.checkCapacity(ctx, n, op, preS)
	case "info":
		w.checkInfo(ctx, n, false)
	case "corrupt_fix":
		w.corruptAndFix(ctx, n, op)
	case "direct":
		// C06: call the plugin methods named by the property directly
		req := rawReq(op.Req)["cpumem"]
		pl := w.mgr.GetPlugins()[0]
		_, _ = pl.GetNodesDeployCapacity(ctx, []string{n.Name}, req)
		_, _ = pl.CalculateDeploy(ctx, n.Name, op.Count, req)
		if len(n.WLs) > 0 {
			v := n.WLs[op.Slot%len(n.WLs)]
			_, _ = pl.CalculateRealloc(ctx, n.Name, v.Raw["cpumem"], req)
		}
		w.probe("direct_plugin_calls")
	}
}

func (w *resWorld) nodeOf(name string) *resModelNode {
	for _, n := range w.nodes {
		if n.Name == name {
			return n
		}
	}
	return nil
}

func (w *resWorld) removeWLs(n *resModelNode, vs []*resWL) {
	kept := n.WLs[:0]
	for _, x := range n.WLs {
		drop := false
		for _, v := range vs {
			if v == x {
				drop = true
			}
		}
		if !drop {
			kept = append(kept, x)
		}
	}
	n.WLs = kept
}

func piecesOf(m cpumemtypes.CPUMap) int {
	t := 0
	for _, p := range m {
		t += p
	}
	return t
}

// checkAlloc: C04 (joint fit) and C05 (exact amount) on the instances of one allocation.
func (w *resWorld) checkAlloc(n *resModelNode, pre *nodeRecord, op resOp, wls []*resWL) {
	sb := w.cfg.ShareBase
	if !validState(pre) {
		w.probe("c04_skipped_invalid_prestate")
		return
	}
	free := map[string]int{}
	for c, p := range pre.Capacity.CPUMap {
		free[c] = p - pre.Usage.CPUMap[c]
	}
	freeMem := pre.Capacity.Memory - pre.Usage.Memory
	freeNUMA := map[string]int64{}
	for k, v := range pre.Capacity.NUMAMemory {
		freeNUMA[k] = v - pre.Usage.NUMAMemory[k]
	}
	useCore := map[string]int{}
	var useMem int64
	useNUMA := map[string]int64{}
	for _, wl := range wls {
		for c, p := range wl.Res.CPUMap {
			useCore[c] += p
			if _, ok := pre.Capacity.CPUMap[c]; !ok {
				w.viol("C04", "unknown-core", "alloc", fmt.Sprintf("%s: instance uses core %s which the node does not have", w.curOp, c))
			}
			if wl.Res.NUMANode != "" && pre.Capacity.NUMA[c] != wl.Res.NUMANode {
				w.viol("C04", "numa-foreign-core", "alloc", fmt.Sprintf("%s: instance placed on NUMA node %s uses core %s of NUMA node %q", w.curOp, wl.Res.NUMANode, c, pre.Capacity.NUMA[c]))
			}
		}
		useMem += wl.Res.MemoryRequest
		if wl.Res.NUMANode != "" {
			w.probe("numa_plan_used")
			useNUMA[wl.Res.NUMANode] += wl.Res.MemoryRequest
			if wl.Res.NUMAMemory[wl.Res.NUMANode] != wl.Res.MemoryRequest {
				w.viol("C04", "numa-memory-record", "alloc", fmt.Sprintf("%s: NUMA-placed instance records numa_memory %v for request %d", w.curOp, wl.Res.NUMAMemory, wl.Res.MemoryRequest))
			}
		}
		// an instance takes memory of its own NUMA node only (and of none when it is not placed on one)
		for _, k := range sortedKeys(wl.Res.NUMAMemory) {
			if k != wl.Res.NUMANode && wl.Res.NUMAMemory[k] != 0 {
				w.viol("C04", "numa-memory-record", "alloc-foreign-node", fmt.Sprintf("%s: instance placed on NUMA node %q records memory of NUMA node %s: %v", w.curOp, wl.Res.NUMANode, k, wl.Res.NUMAMemory))
				useNUMA[k] += wl.Res.NUMAMemory[k]
			}
		}
		// C05
		if op.Req.Bind {
			w.probe("bound_instance")
			eff := op.Req.CPUReq
			if op.Req.CPULimit > eff {
				eff = op.Req.CPULimit
			}
			want := int(math.Round(eff * float64(sb)))
			got := piecesOf(wl.Res.CPUMap)
			if got != want {
				w.viol("C05", "pieces-total", "alloc", fmt.Sprintf("%s: bound instance asked %.4f CPU (share base %d => %d pieces) but got %d pieces %v", w.curOp, eff, sb, want, got, wl.Res.CPUMap))
			}
			frag := 0
			for _, p := range wl.Res.CPUMap {
				if p != sb {
					frag++
					if p > sb || p <= 0 {
						w.viol("C05", "core-share", "alloc", fmt.Sprintf("%s: a core carries %d pieces (share base %d)", w.curOp, p, sb))
					}
				}
			}
			if frag > 1 {
				w.viol("C05", "fragment-count", "alloc", fmt.Sprintf("%s: %d cores carry a fractional share: %v", w.curOp, frag, wl.Res.CPUMap))
			}
			if frag == 1 {
				w.probe("fragment_core_used")
			}
			if math.Abs(wl.Res.CPURequest*float64(sb)-float64(got)) > 0.5 {
				w.viol("C05", "recorded-amount", "alloc", fmt.Sprintf("%s: recorded cpu_request %.6f disagrees with %d pieces", w.curOp, wl.Res.CPURequest, got))
			}
		} else if len(wl.Res.CPUMap) != 0 {
			w.viol("C05", "unbound-has-cores", "alloc", fmt.Sprintf("%s: unbound instance was given cores %v", w.curOp, wl.Res.CPUMap))
		}
	}
	for _, c := range sortedKeys(useCore) {
		if useCore[c] > free[c] {
			w.viol("C04", "core-overcommit", "alloc", fmt.Sprintf("%s: core %s given %d pieces with only %d free (node %s)", w.curOp, c, useCore[c], free[c], canonRecord(pre)))
		}
	}
	if useMem > freeMem {
		kind := "alloc-unbound"
		if op.Req.Bind {
			kind = "alloc-bound"
		}
		w.viol("C04", "memory-overcommit", kind, fmt.Sprintf("%s: instances need %d bytes with only %d free (node %s)", w.curOp, useMem, freeMem, canonRecord(pre)))
	}
	for _, k := range sortedKeys(useNUMA) {
		if useNUMA[k] > freeNUMA[k] {
			w.viol("C04", "numa-memory-overcommit", "alloc", fmt.Sprintf("%s: NUMA node %s needs %d bytes with only %d free", w.curOp, k, useNUMA[k], freeNUMA[k]))
		}
	}
	_ = sort.Strings
}

// validState is the reference notion of a valid node state (stricter than the
// plugin's Validate, which ignores total memory): nothing negative, usage within capacity.
func validState(r *nodeRecord) bool {
	if r == nil || r.Capacity == nil || r.Usage == nil {
		return false
	}
	if r.Capacity.Memory < 0 || r.Usage.Memory < 0 || r.Usage.Memory > r.Capacity.Memory {
		return false
	}
	for c, p := range r.Capacity.CPUMap {
		if p < 0 || r.Usage.CPUMap[c] < 0 || r.Usage.CPUMap[c] > p {
			return false
		}
	}
	for c := range r.Usage.CPUMap {
		if _, ok := r.Capacity.CPUMap[c]; !ok {
			return false
		}
	}
	var numaTotal int64
	for k, v := range r.Capacity.NUMAMemory {
		if v < 0 || r.Usage.NUMAMemory[k] < 0 || r.Usage.NUMAMemory[k] > v {
			return false
		}
		numaTotal += v
	}
	// the NUMA nodes' memory is part of the node's memory
	if numaTotal > r.Capacity.Memory {
		return false
	}
	return true
}

func sameCores(a, b cpumemtypes.CPUMap) bool {
	if len(a) != len(b) {
		return false
	}
	for k := range a {
		if _, ok := b[k]; !ok {
			return false
		}
	}
	return true
}

func sameCPUMap(a, b cpumemtypes.CPUMap) bool {
	if len(a) != len(b) {
		return false
	}
	for k, v := range a {
		if b[k] != v {
			return false
		}
	}
	return true
}

// checkRealloc: C04/C05 for the re-allocated workload, C33 for the no-change case.
func (w *resWorld) checkRealloc(n *resModelNode, pre *nodeRecord, op resOp, old, nw *resWL) {
	sb := w.cfg.ShareBase
	if !validState(pre) {
		w.probe("c04_skipped_invalid_prestate")
		return
	}
	// resources free for this workload = free + what it already holds
	for c, p := range nw.Res.CPUMap {
		free := pre.Capacity.CPUMap[c] - pre.Usage.CPUMap[c] + old.Res.CPUMap[c]
		if p > free {
			w.viol("C04", "core-overcommit", "realloc", fmt.Sprintf("%s: core %s given %d pieces with only %d available", w.curOp, c, p, free))
		}
		if nw.Res.NUMANode != "" && pre.Capacity.NUMA[c] != nw.Res.NUMANode {
			w.viol("C04", "numa-foreign-core", "realloc", fmt.Sprintf("%s: NUMA node %s workload uses core %s of NUMA node %q", w.curOp, nw.Res.NUMANode, c, pre.Capacity.NUMA[c]))
		}
	}
	if freeMem := pre.Capacity.Memory - pre.Usage.Memory + old.Res.MemoryRequest; nw.Res.MemoryRequest > freeMem {
		w.viol("C04", "memory-overcommit", "realloc", fmt.Sprintf("%s: workload now needs %d bytes with only %d available", w.curOp, nw.Res.MemoryRequest, freeMem))
	}
	bound := len(nw.Res.CPUMap) > 0
	if bound {
		want := int(math.Round(nw.Res.CPURequest * float64(sb)))
		if got := piecesOf(nw.Res.CPUMap); got != want {
			w.viol("C05", "pieces-total", "realloc", fmt.Sprintf("%s: bound workload records %.6f CPU (=> %d pieces) but holds %d pieces %v", w.curOp, nw.Res.CPURequest, want, got, nw.Res.CPUMap))
		}
	}
	// C33
	if op.Req.Keep && op.Req.CPUReq == 0 && op.Req.CPULimit == 0 && len(old.Res.CPUMap) > 0 {
		whole := true
		for _, p := range pre.Capacity.CPUMap {
			if p%sb != 0 {
				whole = false
			}
		}
		// staying put must be possible at all: the new memory request has to fit into the
		// node's free memory and, for a NUMA-placed workload, into its NUMA node's
		if nw.Res.MemoryRequest > pre.Capacity.Memory-pre.Usage.Memory+old.Res.MemoryRequest {
			whole = false
		}
		if old.Res.NUMANode != "" && nw.Res.MemoryRequest > pre.Capacity.NUMAMemory[old.Res.NUMANode]-pre.Usage.NUMAMemory[old.Res.NUMANode]+old.Res.NUMAMemory[old.Res.NUMANode] {
			w.probe("c33_skipped_numa_memory_forces_move")
			whole = false
		}
		if whole {
			w.probe("c33_nochange_realloc")
			// the property speaks of the cores (and NUMA node), not of how the pieces
			// are split among them: compare the core sets
			if !sameCores(old.Res.CPUMap, nw.Res.CPUMap) || old.Res.NUMANode != nw.Res.NUMANode {
				w.viol("C33", "cores-moved", "realloc", fmt.Sprintf("%s: no-change realloc moved the workload from %v (numa %q) to %v (numa %q); node %s", w.curOp, old.Res.CPUMap, old.Res.NUMANode, nw.Res.CPUMap, nw.Res.NUMANode, canonRecord(pre)))
			}
		}
	}
}

// checkRemap: C32.
func (w *resWorld) checkRemap(ctx context.Context, n *resModelNode) {
	if len(n.WLs) == 0 {
		return
	}
	var wls []*coretypes.Workload
	for _, x := range n.WLs {
		wls = append(wls, &coretypes.Workload{ID: x.ID, Resources: x.Raw})
	}
	pre, _ := w.record(n.Name)
	out, err := w.mgr.Remap(ctx, n.Name, wls)
	if err != nil {
		return
	}
	w.probe("remap_ok")
	sb := w.cfg.ShareBase
	want := map[string]int{}
	for c, p := range pre.Capacity.CPUMap {
		if p-pre.Usage.CPUMap[c] >= sb {
			want[c] = sb
		}
	}
	if len(want) == 0 {
		w.probe("remap_no_free_core")
		for c := range pre.Capacity.CPUMap {
			want[c] = sb
		}
	}
	for _, x := range n.WLs {
		got, ok := out[x.ID]
		if len(x.Res.CPUMap) > 0 {
			if ok {
				w.viol("C32", "bound-remapped", "remap", fmt.Sprintf("%s: bound workload %s (cores %v) appears in the remap result", w.curOp, x.ID, x.Res.CPUMap))
			}
			continue
		}
		w.probe("remap_unbound_workload")
		if !ok {
			w.viol("C32", "unbound-missing", "remap", fmt.Sprintf("%s: unbound workload %s is missing from the remap result", w.curOp, x.ID))
			continue
		}
		var ep cpumemtypes.EngineParams
		b, _ := json.Marshal(got["cpumem"])
		_ = json.Unmarshal(b, &ep)
		if !sameCPUMap(ep.CPUMap, want) {
			w.viol("C32", "wrong-cores", "remap", fmt.Sprintf("%s: unbound workload %s remapped to %v, expected %v (node %s)", w.curOp, x.ID, ep.CPUMap, want, canonRecord(pre)))
		}
		w.res.Nontrivial = true
	}
}

// checkCapacity: C07. capacity c => Alloc(c) accepted, Alloc(c+1) refused.
func (w *resWorld) checkCapacity(ctx context.Context, n *resModelNode, op resOp, preS string) {
	w.sim.SetFaultsEnabled(false)
	defer w.sim.SetFaultsEnabled(true)
	req := rawReq(op.Req)
	m, total, err := w.mgr.GetNodesDeployCapacity(ctx, []string{n.Name}, req)
	if err != nil {
		return
	}
	w.probe("capacity_query")
	info, offered := m[n.Name]
	c := 0
	if offered {
		c = info.Capacity
		if c <= 0 {
			w.viol("C07", "zero-capacity-offered", "capacity", fmt.Sprintf("%s: node offered with capacity %d", w.curOp, c))
			return
		}
	}
	if total != c {
		w.viol("C07", "total", "capacity", fmt.Sprintf("%s: total %d != capacity %d of the only node", w.curOp, total, c))
	}
	try := func(k int) (bool, []resourcetypes.Resources) {
		wps, _, err := w.mgr.Alloc(ctx, n.Name, k, req)
		return err == nil, wps
	}
	undo := func(wps []resourcetypes.Resources) {
		if err := w.mgr.RollbackAlloc(ctx, n.Name, wps); err != nil {
			w.res.Harness = "capacity probe rollback failed: " + err.Error()
		}
		post, _ := w.record(n.Name)
		if s := canonRecord(post); s != preS {
			w.viol("C08", "rollback-not-exact", "capacity-probe", fmt.Sprintf("%s: alloc+rollback did not restore the record\n before %s\n after  %s", w.curOp, preS, s))
		}
	}
	if c == math.MaxInt {
		w.probe("capacity_unlimited")
		if ok, wps := try(7); !ok {
			w.viol("C07", "unlimited-refused", "capacity", fmt.Sprintf("%s: capacity unlimited but Alloc(7) refused", w.curOp))
		} else {
			undo(wps)
		}
		return
	}
	if c > 400 {
		return
	}
	if c > 0 {
		w.res.Nontrivial = true
		ok, wps := try(c)
		if !ok {
			w.viol("C07", "capacity-not-accepted", bindKind(op.Req), fmt.Sprintf("%s: reported capacity %d but Alloc(%d) refused (node %s)", w.curOp, c, c, preS))
		} else {
			if !op.Req.Bind && op.Req.MemReq > 0 && c >= 2 {
				// memory-only: allocating k lowers the capacity by exactly k
				k := c / 2
				undo(wps)
				if ok2, wps2 := try(k); ok2 {
					m2, _, err := w.mgr.GetNodesDeployCapacity(ctx, []string{n.Name}, req)
					c2 := 0
					if err == nil {
						if i2, ok := m2[n.Name]; ok {
							c2 = i2.Capacity
						}
					}
					if c2 != c-k {
						w.viol("C07", "memory-capacity-drop", "capacity", fmt.Sprintf("%s: capacity %d, after allocating %d it is %d (expected %d)", w.curOp, c, k, c2, c-k))
					}
					undo(wps2)
				}
			} else {
				undo(wps)
			}
		}
	}
	ok, wps := try(c + 1)
	if ok {
		w.viol("C07", "above-capacity-accepted", bindKind(op.Req), fmt.Sprintf("%s: reported capacity %d but Alloc(%d) accepted (node %s)", w.curOp, c, c+1, preS))
		undo(wps)
	} else {
		post, _ := w.record(n.Name)
		if s := canonRecord(post); s != preS {
			w.viol("C08", "failed-op-changed-record", "capacity-probe", fmt.Sprintf("%s: refused Alloc changed the record", w.curOp))
		}
	}
}

func bindKind(r resReq) string {
	if r.Bind {
		return "bound"
	}
	return "memory-only"
}

func (w *resWorld) modelWorkloads(n *resModelNode) []*coretypes.Workload {
	var wls []*coretypes.Workload
	for _, x := range n.WLs {
		wls = append(wls, &coretypes.Workload{ID: x.ID, Resources: x.Raw})
	}
	return wls
}

func (w *resWorld) checkInfo(ctx context.Context, n *resModelNode, afterFix bool) {
	w.sim.SetFaultsEnabled(false)
	defer w.sim.SetFaultsEnabled(true)
	_, _, diffs, err := w.mgr.GetNodeResourceInfo(ctx, n.Name, w.modelWorkloads(n), false)
	if err != nil {
		return
	}
	w.probe("info_ok")
	if len(diffs) > 0 {
		p, rule := "C08", "plugin-reports-diffs"
		if afterFix {
			p, rule = "C15", "diffs-after-fix"
		}
		w.viol(p, rule, "info", fmt.Sprintf("%s: resource check reports %v", w.curOp, diffs))
	}
}

// corruptAndFix: C15. Drift is written straight into the plugin record, then repaired.
func (w *resWorld) corruptAndFix(ctx context.Context, n *resModelNode, op resOp) {
	w.sim.SetFaultsEnabled(false)
	defer w.sim.SetFaultsEnabled(true)
	rec, _ := w.record(n.Name)
	if rec == nil || rec.Usage == nil {
		return
	}
	// precondition of C15: the recorded workloads fit within the capacity
	_, cores, mem, numa := w.modelUsage(n)
	fits := mem <= rec.Capacity.Memory
	for c, p := range cores {
		if p > rec.Capacity.CPUMap[c] {
			fits = false
		}
	}
	for k, v := range numa {
		if v > rec.Capacity.NUMAMemory[k] {
			fits = false
		}
	}
	if !fits {
		w.probe("c15_skipped_not_fitting")
		return
	}
	ks := sortedKeys(rec.Capacity.CPUMap)
	core := ks[int(op.Amount)%len(ks)]
	switch op.Pattern {
	case 0:
		rec.Usage.CPUMap[core] += int(op.Amount)
	case 1:
		rec.Usage.CPUMap[core] -= int(op.Amount)
	case 2:
		rec.Usage.Memory += op.Amount * mib
	case 3:
		rec.Usage.Memory -= op.Amount * mib
	case 4:
		rec.Usage.CPU += float64(op.Amount) / 10
	case 5:
		// NUMA drift only on nodes that have a NUMA topology (a NUMA entry on a
		// node without one is not a state the property quantifies over)
		if len(rec.Capacity.NUMAMemory) == 0 {
			rec.Usage.Memory += op.Amount * mib
		} else {
			if rec.Usage.NUMAMemory == nil {
				rec.Usage.NUMAMemory = cpumemtypes.NUMAMemory{}
			}
			nk := sortedKeys(rec.Capacity.NUMAMemory)
			rec.Usage.NUMAMemory[nk[int(op.Amount)%len(nk)]] += op.Amount * mib
		}
	case 6:
		rec.Usage.CPUMap = cpumemtypes.CPUMap{}
		rec.Usage.Memory = 0
		rec.Usage.CPU = 0
	}
	b, _ := json.Marshal(rec)
	w.pstore.PutDirect("/resource/cpumem/"+n.Name, string(b))
	w.probe("c15_corrupted")
	w.res.Nontrivial = true
	_, _, diffs, err := w.mgr.GetNodeResourceInfo(ctx, n.Name, w.modelWorkloads(n), true)
	if err != nil {
		w.viol("C15", "fix-failed", "corrupt_fix", fmt.Sprintf("%s: repair returned error %v", w.curOp, err))
		return
	}
	if len(diffs) > 0 {
		w.probe("c15_fix_reported_diffs")
	}
	w.checkInfo(ctx, n, true)
	// record must equal the model sum now (checked under C15's name)
	before := len(w.res.Violations)
	w.checkBookkeeping(n, "fix")
	for i := before; i < len(w.res.Violations); i++ {
		w.res.Violations[i].Property = "C15"
		w.res.Violations[i].Rule = "usage-after-fix-" + w.res.Violations[i].Rule
	}
}
