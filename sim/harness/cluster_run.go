package harness

import (
	"context"
	"fmt"
	"sort"
	"strings"
	"time"

	resourcetypes "github.com/projecteru2/core/resource/types"
	"github.com/projecteru2/core/rpc"
	pb "github.com/projecteru2/core/rpc/gen"
	coretypes "github.com/projecteru2/core/types"

	"verif/sim/simrt"
)

type opOutcome struct {
	err      error  // whole-op error
	failed   bool   // the op (or every item) reported failure
	partial  bool   // some items failed, some succeeded
	okIDs    []string
	failIDs  []string
	created  []*coretypes.CreateWorkloadMessage
	nMsgs    int
	skipped  bool
	closed   bool
}

// deployMonitor is C13's step invariant while one create runs.
type deployMonitor struct {
	app, entry string
	prior      map[string]int
	planned    map[string]int // per node: sum of the initial values of the markers this deployment created
	markerSeen map[string]int
	preMarkers map[string]bool
	stepChecks bool
	active     bool
	checks     int
}

func (w *cluWorld) installMonitor() {
	w.sim.OnStep = func(s *simrt.Sim) {
		m := w.mon13
		if m == nil || !m.active || w.core == nil {
			return
		}
		// the plan a deployment executes is visible as the initial value of the
		// in-progress marker it creates for each node
		pfx := "/processing/" + m.app + "/" + m.entry + "/"
		for k, v := range w.etcd.Snapshot(pfx) {
			if m.preMarkers[k] {
				continue
			}
			p := strings.Split(strings.TrimPrefix(k, pfx), "/")
			if len(p) != 2 {
				continue
			}
			if _, seen := m.markerSeen[k]; !seen {
				n := 0
				fmt.Sscanf(v, "%d", &n)
				m.markerSeen[k] = n
				m.planned[p[0]] += n
			}
		}
		if !m.stepChecks {
			return
		}
		got, err := w.core.cal.GetStore().GetDeployStatus(context.Background(), m.app, m.entry)
		if err != nil {
			return
		}
		m.checks++
		st := w.readState()
		rec := map[string]int{}
		for _, wl := range st.Workloads {
			a, e, ok := parseName(wl.Name)
			if ok && a == m.app && e == m.entry {
				rec[wl.Nodename]++
			}
		}
		ks := map[string]bool{}
		for k := range got {
			ks[k] = true
		}
		for k := range rec {
			ks[k] = true
		}
		for _, n := range sortedKeys(ks) {
			if got[n] < rec[n] {
				w.viol("C13", "count-below-recorded", "during-create", fmt.Sprintf("step %d: deploy status of %s/%s on %s is %d but %d workloads are already recorded there", s.Stats.Steps, m.app, m.entry, n, got[n], rec[n]))
			}
			if got[n] > m.prior[n]+m.planned[n] {
				w.viol("C13", "count-above-planned", "during-create", fmt.Sprintf("step %d: deploy status of %s/%s on %s is %d, above prior %d + planned %d", s.Stats.Steps, m.app, m.entry, n, got[n], m.prior[n], m.planned[n]))
			}
		}
	}
}

func injectedOrNil(err error) string {
	if err == nil {
		return "nil"
	}
	if isInjected(err) {
		return "injected"
	}
	return "refused"
}

// runSeqOp: one operation, then quiescence and the full oracle.
func (w *cluWorld) runSeqOp(ctx context.Context, op cluOp) {
	w.sim.SetFaultsEnabled(false)
	pre := w.readState()
	preSnap := w.snapshot()
	var plan map[string]int
	var refNodes map[string]bool
	if op.Kind == "create" || op.Kind == "lambda" || op.Kind == "capacity" {
		// dry run: the plan the deployment will execute (state cannot change in between)
		o := w.deployOpts(op)
		if o.DeployStrategy != "DUMMY" {
			if cm, err := w.core.cal.CalculateCapacity(ctx, o); err == nil {
				plan = cm.NodeCapacities
			}
		}
		refNodes = w.referenceFilter(pre, o.NodeFilter)
		w.sim.Settle()
	}
	if op.Kind == "create" || op.Kind == "lambda" {
		if w.sim.OnStep == nil {
			w.installMonitor()
		}
		prior, _ := w.core.cal.GetStore().GetDeployStatus(ctx, op.App, op.Entry)
		pre13 := map[string]bool{}
		for k := range pre.Processing {
			pre13[k] = true
		}
		w.mon13 = &deployMonitor{app: op.App, entry: op.Entry, prior: prior, planned: map[string]int{}, markerSeen: map[string]int{}, preMarkers: pre13, stepChecks: w.prop == "C13", active: true}
	}
	f0 := w.sim.FaultIndex()
	w.sim.SetFaultsEnabled(true)
	out := w.execOp(ctx, op, plan, refNodes, pre)
	w.sim.Settle()
	w.sim.SetFaultsEnabled(false)
	var executed map[string]int
	if w.mon13 != nil {
		w.mon13.active = false
		w.res.Probes["c13_monitor_checks"] += w.mon13.checks
		executed = w.mon13.planned
		w.mon13 = nil
	}
	w.res.Probes["op_faultable_calls"] += w.sim.FaultIndex() - f0
	if out.skipped {
		w.sim.SetFaultsEnabled(true)
		return
	}
	w.probe("op_" + op.Kind)
	post := w.checkAll(ctx, op.Kind, nil)
	postSnap := w.snapshot()
	w.sim.SetFaultsEnabled(false)
	// ---- C11: a failed operation leaves no lasting effect ----
	switch op.Kind {
	case "create", "lambda":
		added, removed := sameKeys(pre.Workloads, post.Workloads)
		if op.Kind == "create" {
			w.checkCreateTruth(op, out, pre, post, executed, added, removed)
		} else {
			w.checkLambdaClean(out, post)
			if !out.closed && out.err == nil {
				w.viol("C30", "stream-not-closed", "lambda", "the output stream did not close")
			}
		}
	case "remove", "dissociate":
		added, removed := sameKeys(pre.Workloads, post.Workloads)
		sort.Strings(out.okIDs)
		if len(added) > 0 || strings.Join(removed, ",") != strings.Join(out.okIDs, ",") {
			w.viol("C11", "removed-set-mismatch", op.Kind, fmt.Sprintf("%s reported success for %v but records removed %v, added %v", op.Kind, shortIDs(out.okIDs), shortIDs(removed), shortIDs(added)))
		}
		for _, id := range out.failIDs {
			wl := pre.Workloads[id]
			if wl == nil {
				continue
			}
			if c, ok := w.engines[wl.Nodename].Get(id); !ok {
				w.viol("C11", "failed-remove-lost-container", op.Kind, fmt.Sprintf("%s of %s reported failure but its container is gone", op.Kind, shortID(id)))
			} else if pc := containsLine(preSnap, "engine/"+wl.Nodename+"/"+id+" running=true"); pc && !c.Running {
				w.viol("C11", "failed-remove-stopped-container", op.Kind, fmt.Sprintf("%s of %s reported failure but its container was stopped", op.Kind, shortID(id)))
			}
		}
		if out.failed && len(out.okIDs) == 0 {
			w.expectUnchanged(preSnap, postSnap, op.Kind)
		}
	case "realloc", "set_node", "add_node", "remove_node", "add_pod", "remove_pod":
		if out.failed {
			w.probe("failed_" + op.Kind + "_" + injectedOrNil(out.err))
			w.expectUnchanged(preSnap, postSnap, op.Kind)
		}
	case "replace":
		if out.failed {
			w.probe("failed_replace_" + injectedOrNil(out.err))
			for _, id := range out.failIDs {
				wl := pre.Workloads[id]
				if wl == nil {
					continue
				}
				if post.Workloads[id] == nil {
					w.viol("C11", "failed-replace-lost-record", "replace", fmt.Sprintf("replace of %s failed but the old workload is no longer recorded", shortID(id)))
				}
				if c, ok := w.engines[wl.Nodename].Get(id); !ok || (!c.Running && !w.stoppedByOp[id]) {
					w.viol("C11", "failed-replace-old-not-running", "replace", fmt.Sprintf("replace of %s failed but the old container is not running (exists=%v)", shortID(id), ok))
				}
			}
			if len(out.okIDs) == 0 {
				// "a failed replace leaves the old workload recorded and running": an old
				// workload that had been stopped before the call and runs after the failed
				// replace is what the statement asks for, not a change to report
				pre2 := map[string]string{}
				for k, v := range preSnap {
					pre2[k] = v
				}
				for _, id := range out.failIDs {
					if wl := pre.Workloads[id]; wl != nil {
						was := "engine/" + wl.Nodename + "/" + id + " running=false"
						for k := range preSnap {
							if now := strings.Replace(k, " running=false", " running=true", 1); strings.HasPrefix(k, was) && postSnap[now] != "" {
								delete(pre2, k)
								pre2[now] = postSnap[now]
								w.probe("failed_replace_restarted_a_stopped_workload")
							}
						}
					}
				}
				w.expectUnchanged(pre2, postSnap, "replace")
			}
		}
	}
	// ---- C32 at the cluster level: nodes whose bindings this operation changed ----
	if w.prop == "C32" {
		switch op.Kind {
		case "set_node", "node_resource", "add_node":
			// capacity may change without a re-map: the node is out of scope until the next one
			if op.Kind == "add_node" {
				w.remapDirty[op.NewName] = true
			} else {
				w.remapDirty[w.nodeName(op.Node)] = true
			}
		case "create", "remove", "dissociate", "realloc", "replace":
			touched := map[string]bool{}
			for _, id := range out.okIDs {
				if wl := post.Workloads[id]; wl != nil {
					touched[wl.Nodename] = true
				}
				if wl := pre.Workloads[id]; wl != nil {
					touched[wl.Nodename] = true
				}
			}
			// which calls did the injected failure hit? only a failed engine update of one
			// workload is a failure the re-map is expected to work around
			allowed, other := 0, false
			for _, l := range w.errLabels {
				if strings.HasPrefix(l, "engine UpdateResource ") {
					allowed++
				} else {
					other = true
				}
			}
			if !other {
				for _, n := range sortedKeys(touched) {
					delete(w.remapDirty, n)
				}
				w.checkRemap(post, touched, allowed, op.Kind)
			} else {
				for _, n := range sortedKeys(touched) {
					w.remapDirty[n] = true // the re-map itself may have been refused
				}
			}
		}
		w.errLabels = nil
	}
	// allocations never push usage above capacity
	if !out.failed && (op.Kind == "create" || op.Kind == "realloc" || op.Kind == "replace" || op.Kind == "lambda") {
		for _, n := range sortedKeys(post.Resource) {
			r, pr := post.Resource[n], pre.Resource[n]
			if r == nil || pr == nil || r.Usage == nil || pr.Usage == nil || !validState(pr) {
				continue
			}
			if r.Usage.Memory > pr.Usage.Memory && r.Usage.Memory > r.Capacity.Memory {
				w.viol("C10", "usage-above-capacity", op.Kind, fmt.Sprintf("node %s memory usage %d exceeds capacity %d after %s", n, r.Usage.Memory, r.Capacity.Memory, op.Kind))
			}
			for c, p := range r.Usage.CPUMap {
				if p > pr.Usage.CPUMap[c] && p > r.Capacity.CPUMap[c] {
					w.viol("C10", "usage-above-capacity", op.Kind, fmt.Sprintf("node %s core %s usage %d exceeds capacity %d after %s", n, c, p, r.Capacity.CPUMap[c], op.Kind))
				}
			}
		}
	}
	w.sim.SetFaultsEnabled(true)
}

func containsLine(m map[string]string, prefix string) bool {
	for k := range m {
		if strings.HasPrefix(k, prefix) {
			return true
		}
	}
	return false
}

func shortIDs(ids []string) []string {
	var o []string
	for _, i := range ids {
		o = append(o, shortID(i))
	}
	return o
}

func (w *cluWorld) expectUnchanged(pre, post map[string]string, kind string) {
	d := diffSnap(pre, post)
	if len(d) == 0 {
		w.probe("c11_failed_op_unchanged")
		return
	}
	// which kind of thing changed decides the signature
	what := "store"
	for _, x := range d {
		if strings.Contains(x, "/resource/cpumem/") {
			what = "node-resource"
			break
		}
		if strings.Contains(x, "engine/") {
			what = "engine"
		}
	}
	if len(d) > 8 {
		d = d[:8]
	}
	w.viol("C11", "failed-op-changed-state", kind+":"+what, fmt.Sprintf("%s reported failure but the state changed:\n   %s", kind, strings.Join(d, "\n   ")))
}

// referenceFilter is C21's reference: the set of nodes an operation must act on.
func (w *cluWorld) referenceFilter(s *cluState, nf *coretypes.NodeFilter) map[string]bool {
	out := map[string]bool{}
	if len(nf.Includes) > 0 {
		for _, n := range nf.Includes {
			if _, ok := s.Nodes[n]; !ok {
				return nil // an unknown name makes the request fail
			}
			out[n] = true
		}
		return out
	}
	ex := map[string]bool{}
	for _, n := range nf.Excludes {
		ex[n] = true
	}
	alive := w.etcd.Snapshot("/status:node/")
	for name, n := range s.Nodes {
		if nf.Podname != "" && n.Podname != nf.Podname {
			continue
		}
		if ex[name] {
			continue
		}
		okL := true
		for k, v := range nf.Labels {
			if have, ok := n.Labels[k]; !ok || have != v {
				okL = false
			}
		}
		if !okL {
			continue
		}
		_, up := alive["/status:node/"+name]
		if !nf.All && (n.Bypass || !up) {
			continue
		}
		out[name] = true
	}
	return out
}

func (w *cluWorld) execOp(ctx context.Context, op cluOp, plan map[string]int, refNodes map[string]bool, pre *cluState) (out opOutcome) {
	cal := w.core.cal
	switch op.Kind {
	case "create":
		opts := w.deployOpts(op)
		w.setFlag(w.apps, op.App+"/"+op.Entry, true)
		if op.Secs > 0 {
			for _, n := range sortedKeys(w.engines) {
				w.engines[n].SetSlow("Create", time.Duration(op.Secs)*time.Second)
				defer w.engines[n].SetSlow("Create", 0)
			}
			w.probe("create_on_slow_machines")
		}
		var ch chan *coretypes.CreateWorkloadMessage
		var err error
		if op.ClientGone > 0 {
			// through the RPC handler, with a client that goes away after a few messages: the
			// deployment has to be seen through all the same
			shim := &createShim{Cluster: cal, opts: opts}
			vib := rpc.New(shim, w.ccfg, make(chan struct{}))
			stream := &fakeCreateStream{ctx: ctx, failFrom: op.ClientGone}
			w.probe("create_through_rpc_client_goes_away")
			rerr := vib.CreateWorkload(&pb.DeployOptions{Name: op.App, Entrypoint: &pb.EntrypointOptions{Name: op.Entry}, Podname: opts.Podname, Count: int32(op.Count)}, stream)
			w.sim.Settle()
			shim.mu.Lock()
			seen := append([]*coretypes.CreateWorkloadMessage{}, shim.seen...)
			shim.mu.Unlock()
			if rerr != nil && len(seen) == 0 {
				out.err, out.failed = rerr, true
				return
			}
			ch = make(chan *coretypes.CreateWorkloadMessage, len(seen))
			for _, m := range seen {
				ch <- m
			}
			close(ch)
		} else {
			ch, err = cal.CreateWorkload(ctx, opts)
		}
		if err != nil {
			out.err, out.failed = err, true
			return
		}
		for m := range ch {
			out.nMsgs++
			out.created = append(out.created, m)
			if m.Error != nil {
				if out.err == nil {
					out.err = m.Error
				}
			} else {
				out.okIDs = append(out.okIDs, m.WorkloadID)
				w.own(op, m.WorkloadID)
			}
		}
		out.closed = true
		out.failed = len(out.okIDs) == 0
		if len(out.okIDs) > 0 {
			w.res.Nontrivial = true
		}
	case "capacity":
		opts := w.deployOpts(op)
		cm, err := cal.CalculateCapacity(ctx, opts)
		w.checkSelection(op, opts, cm, err, refNodes, pre)
		out.failed = err != nil
		out.err = err
	case "lambda":
		out = w.execLambda(ctx, op)
	case "remove", "dissociate":
		ids := w.candidates(op)
		if len(ids) == 0 {
			out.skipped = true
			return
		}
		var sel []string
		seen := map[string]bool{}
		for _, s := range op.Slots {
			id := ids[s%len(ids)]
			if !seen[id] {
				seen[id] = true
				sel = append(sel, id)
			}
		}
		if op.Kind == "remove" {
			ch, err := cal.RemoveWorkload(ctx, sel, op.Force)
			if err != nil {
				out.err, out.failed, out.failIDs = err, true, sel
				return
			}
			got := map[string]bool{}
			for m := range ch {
				out.nMsgs++
				if m.WorkloadID == "" {
					continue // a whole node failed to lock
				}
				got[m.WorkloadID] = true
				if m.Success {
					out.okIDs = append(out.okIDs, m.WorkloadID)
				} else {
					out.failIDs = append(out.failIDs, m.WorkloadID)
				}
			}
			for _, id := range sel {
				if !got[id] {
					out.failIDs = append(out.failIDs, id)
				}
			}
		} else {
			ch, err := cal.DissociateWorkload(ctx, sel)
			if err != nil {
				out.err, out.failed, out.failIDs = err, true, sel
				return
			}
			got := map[string]bool{}
			for m := range ch {
				got[m.WorkloadID] = true
				if m.Error == nil {
					out.okIDs = append(out.okIDs, m.WorkloadID)
					w.setFlag(w.dissociated, m.WorkloadID, true)
				} else {
					out.failIDs = append(out.failIDs, m.WorkloadID)
				}
			}
			for _, id := range sel {
				if !got[id] {
					out.failIDs = append(out.failIDs, id)
				}
			}
		}
		out.failed = len(out.okIDs) == 0
		if !out.failed {
			w.res.Nontrivial = true
		}
	case "realloc":
		id := w.pick(op)
		if id == "" {
			out.skipped = true
			return
		}
		err := cal.ReallocResource(ctx, &coretypes.ReallocOptions{ID: id, Resources: rawReq(op.Req)})
		out.err, out.failed = err, err != nil
		if err == nil {
			w.res.Nontrivial = true
		}
	case "replace":
		id := w.pick(op)
		if id == "" {
			out.skipped = true
			return
		}
		wl := pre.Workloads[id]
		app, entry, _ := parseName(wl.Name)
		opts := &coretypes.ReplaceOptions{DeployOptions: coretypes.DeployOptions{Name: app, Entrypoint: &coretypes.Entrypoint{Name: entry}, Podname: wl.Podname, Image: "img2", Count: 1, IgnorePull: true}, IDs: []string{id}}
		w.setFlag(w.apps, app+"/"+entry, true)
		ch, err := cal.ReplaceWorkload(ctx, opts)
		if err != nil {
			out.err, out.failed, out.failIDs = err, true, []string{id}
			return
		}
		n := 0
		for m := range ch {
			n++
			if m.Error != nil {
				out.err = m.Error
				out.failIDs = append(out.failIDs, id)
			} else {
				out.okIDs = append(out.okIDs, id)
				w.res.Nontrivial = true
				if m.Create != nil {
					w.own(op, m.Create.WorkloadID)
				}
			}
		}
		if n == 0 {
			out.skipped = true // ignored by filter
		}
		out.failed = len(out.okIDs) == 0
	case "control":
		id := w.pick(op)
		if id == "" {
			out.skipped = true
			return
		}
		ids := []string{id}
		if cands := w.candidates(op); len(op.Slots) > 0 && len(cands) > 1 {
			// several workloads in one call (each handled by its own goroutine)
			seen := map[string]bool{id: true}
			for _, sl := range op.Slots {
				if c := cands[sl%len(cands)]; !seen[c] {
					seen[c] = true
					ids = append(ids, c)
				}
			}
		}
		ch, err := cal.ControlWorkload(ctx, ids, op.Ctl, true)
		if err != nil {
			out.failed = true
			return
		}
		for m := range ch {
			if m.Error == nil {
				if op.Ctl == "stop" {
					w.setFlag(w.stoppedByOp, m.WorkloadID, true)
				} else {
					w.setFlag(w.stoppedByOp, m.WorkloadID, false)
				}
			} else {
				out.failed = true
				// a failed stop/restart may have stopped the container: that is the op's own (reported) effect on run state
				w.setFlag(w.stoppedByOp, m.WorkloadID, true)
			}
		}
	case "node_resource":
		name := w.nodeName(op.Node)
		// repair is not among the operations C10/C22 quantify over concurrently: a repair
		// racing with an in-flight create legitimately sees allocated-but-unrecorded
		// resources. Concurrent histories only use the read-only check.
		_, err := cal.NodeResource(ctx, name, op.Fix && w.cfg.Mode != "conc")
		out.err, out.failed = err, err != nil
	case "set_node":
		name := w.nodeName(op.Node)
		p := resourcetypes.RawParams{}
		if op.CapCPU != 0 {
			p["cpu"] = op.CapCPU
		}
		if op.CapMem != 0 {
			p["memory"] = op.CapMem
		}
		o := &coretypes.SetNodeOptions{Nodename: name, Delta: op.Delta, Labels: op.Labels, Bypass: coretypes.TriOptions(op.Bypass)}
		if len(p) > 0 {
			o.Resources = resourcetypes.Resources{"cpumem": p}
		}
		_, err := cal.SetNode(ctx, o)
		out.err, out.failed = err, err != nil
	case "add_node":
		n := cluNode{Name: op.NewName, Pod: w.podName(op.Pod), Cores: 2, Memory: 4096 * mib, HBTTL: 86400}
		if _, ok := w.engines[n.Name]; !ok {
			w.engines[n.Name] = newEngineNode(n)
		}
		err := w.addNode(ctx, n)
		out.err, out.failed = err, err != nil
	case "remove_node":
		err := cal.RemoveNode(ctx, w.nodeName(op.Node))
		out.err, out.failed = err, err != nil
	case "add_pod":
		_, err := cal.AddPod(ctx, op.NewName, "")
		out.err, out.failed = err, err != nil
	case "remove_pod":
		err := cal.RemovePod(ctx, w.podName(op.Pod))
		out.err, out.failed = err, err != nil
	case "advance":
		time.Sleep(time.Duration(op.Secs) * time.Second)
		out.skipped = true
	case "list_pod_nodes":
		ch, err := cal.ListPodNodes(ctx, &coretypes.ListNodesOptions{Podname: w.podName(op.Pod), All: true, CallInfo: true})
		if err == nil {
			for range ch {
			}
		}
		out.err, out.failed = err, err != nil
	case "rm_image":
		// C21: an operation that acts on the *list* of selected nodes (no map in between):
		// every selected node exactly once, whatever repeats the include list has
		podname := ""
		if op.UsePod || len(op.Includes) == 0 {
			podname = w.podName(op.Pod)
		} else {
			podname = w.podName(op.Pod) // the API wants a pod name even with includes
		}
		nf := &coretypes.NodeFilter{Podname: podname}
		for _, i := range op.Includes {
			nf.Includes = append(nf.Includes, w.nodeName(i))
		}
		ref := w.referenceFilter(pre, nf)
		before := map[string]int{}
		for _, n := range sortedKeys(w.engines) {
			before[n] = w.engines[n].ImageRemoveCount()
		}
		ch, err := cal.RemoveImage(ctx, &coretypes.ImageOptions{Podname: podname, Nodenames: nf.Includes, Images: []string{"img"}})
		if err == nil {
			for range ch {
			}
		}
		out.err, out.failed = err, err != nil
		w.probe("c21_image_selection_checked")
		if err != nil {
			if ref != nil && len(ref) > 0 && !isInjected(err) {
				w.viol("C21", "selection-failed", "rm_image", fmt.Sprintf("filter %+v selects %v but the request failed: %v", nf, sortedKeys(ref), err))
			}
			return
		}
		if ref == nil {
			w.viol("C21", "unknown-include-accepted", "rm_image", fmt.Sprintf("filter %+v names an unknown node but the request succeeded", nf))
			return
		}
		for _, n := range sortedKeys(w.engines) {
			d := w.engines[n].ImageRemoveCount() - before[n]
			want := 0
			if ref[n] {
				want = 1
			}
			if d != want {
				w.res.Nontrivial = true
				w.viol("C21", "node-acted-on-wrong-number-of-times", "rm_image", fmt.Sprintf("filter %+v (expected nodes %v): node %s was acted on %d times, expected %d", nf, sortedKeys(ref), n, d, want))
			}
		}
	case "rpc_pods", "rpc_node", "rpc_status", "rpc_send", "rpc_list":
		// the same calls through the RPC layer (task counter, converters)
		vib := w.vibranium()
		var err error
		switch op.Kind {
		case "rpc_list":
			err = vib.ListWorkloads(&pb.ListWorkloadsOptions{Appname: op.App}, &fakeListStream{ctx: ctx})
		case "rpc_pods":
			_, err = vib.ListPods(ctx, &pb.Empty{})
		case "rpc_node":
			_, err = vib.GetNode(ctx, &pb.GetNodeOptions{Nodename: w.nodeName(op.Node)})
		case "rpc_status":
			ids := w.candidates(op)
			if len(ids) == 0 {
				_, err = vib.ListPods(ctx, &pb.Empty{})
				break
			}
			id := ids[op.Slot%len(ids)]
			_, err = vib.GetWorkloadsStatus(ctx, &pb.WorkloadIDs{IDs: []string{id}})
		case "rpc_send":
			ids := w.candidates(op)
			if len(ids) == 0 {
				out.skipped = true
				return
			}
			var sel []string
			for _, s := range op.Slots {
				sel = append(sel, ids[s%len(ids)])
			}
			st := &fakeSendStream{ctx: ctx}
			err = vib.Send(&pb.SendOptions{IDs: sel, Data: map[string][]byte{"/etc/f": []byte("hello")}, Modes: map[string]*pb.FileMode{"/etc/f": {Mode: 0o644}}, Owners: map[string]*pb.FileOwner{"/etc/f": {}}}, st)
		}
		out.err, out.failed = err, err != nil
	default:
		out.skipped = true
	}
	return
}

// checkCreateTruth is C12: the result stream is complete and truthful.
func (w *cluWorld) checkCreateTruth(op cluOp, out opOutcome, pre, post *cluState, plan map[string]int, added, removed []string) {
	if out.err != nil && !out.closed {
		// rejected before anything started: nothing may have changed
		if len(added) > 0 || len(removed) > 0 {
			w.viol("C12", "rejected-create-changed-records", "create", fmt.Sprintf("create was rejected (%v) but records changed: +%v -%v", out.err, shortIDs(added), shortIDs(removed)))
		}
		return
	}
	if !out.closed {
		w.viol("C12", "stream-not-closed", "create", "the result stream did not close")
		return
	}
	total := 0
	for _, c := range plan {
		total += c
	}
	// "each failure leaves no ... resource usage behind for that instance": after a create
	// with at least one failed instance every node's usage is the sum of its records
	if out.nMsgs > len(out.okIDs) {
		w.probe("c12_usage_checked_after_failed_instance")
		w.checkUsage(post, "C12", "create-with-failed-instance")
		// C11 says the same of every part of a create that reports failure ("leaves ...
		// node usage exactly as [it was]"): what remains charged is what is recorded
		w.checkUsage(post, "C11", "create-with-failed-part")
	}
	single := out.nMsgs == 1 && out.created[0].Error != nil && out.created[0].WorkloadID == ""
	if !(single && len(out.okIDs) == 0) && out.nMsgs != total {
		w.viol("C12", "message-count", "create", fmt.Sprintf("the deployment planned %d instances (%v, from its in-progress markers) but the stream carried %d messages (%d successes)", total, plan, out.nMsgs, len(out.okIDs)))
	}
	ok := append([]string(nil), out.okIDs...)
	sort.Strings(ok)
	if strings.Join(ok, ",") != strings.Join(added, ",") || len(removed) > 0 {
		w.viol("C12", "records-neq-successes", "create", fmt.Sprintf("successes %v but new records %v (removed %v)", shortIDs(ok), shortIDs(added), shortIDs(removed)))
	}
	perNode := map[string]int{}
	for _, m := range out.created {
		if m.Error != nil {
			continue
		}
		perNode[m.Nodename]++
		wl := post.Workloads[m.WorkloadID]
		if wl == nil {
			continue
		}
		if wl.Nodename != m.Nodename {
			w.viol("C12", "wrong-node", "create", fmt.Sprintf("workload %s reported on %s but recorded on %s", shortID(m.WorkloadID), m.Nodename, wl.Nodename))
		}
		a, b := parseWL(wl.Resources["cpumem"]), parseWL(m.Resources["cpumem"])
		if a.CPURequest != b.CPURequest || a.MemoryRequest != b.MemoryRequest || !sameCPUMap(a.CPUMap, b.CPUMap) || a.NUMANode != b.NUMANode {
			w.viol("C12", "wrong-resources", "create", fmt.Sprintf("workload %s reported resources %+v but recorded %+v", shortID(m.WorkloadID), b, a))
		}
		if c, ok := w.engines[m.Nodename].Get(m.WorkloadID); !ok || !c.Running {
			w.viol("C12", "success-not-running", "create", fmt.Sprintf("workload %s reported as created but its container exists=%v running=%v", shortID(m.WorkloadID), ok, ok && c.Running))
		}
	}
	for n, c := range perNode {
		if c > plan[n] {
			w.viol("C12", "more-than-planned", "create", fmt.Sprintf("node %s got %d successes but %d were planned", n, c, plan[n]))
		}
	}
	// new containers are exactly the successes
	for n, ids := range post.Containers {
		was := map[string]bool{}
		for _, id := range pre.Containers[n] {
			was[id] = true
		}
		for _, id := range ids {
			if !was[id] && post.Workloads[id] == nil {
				w.viol("C12", "failed-instance-left-container", "create", fmt.Sprintf("node %s keeps container %s of an instance that was not reported as created", n, shortID(id)))
			}
		}
	}
}

// checkSelection is C21 (via DUMMY capacity) plus the plan-level C01 name check.
func (w *cluWorld) checkSelection(op cluOp, opts *coretypes.DeployOptions, cm *coretypes.CapacityMessage, err error, ref map[string]bool, pre *cluState) {
	if opts.DeployStrategy != "DUMMY" {
		if err == nil {
			for n := range cm.NodeCapacities {
				if ref != nil && !ref[n] {
					w.viol("C21", "plan-names-unselected-node", "capacity", fmt.Sprintf("plan names node %s which the filter %+v does not select (expected %v)", n, opts.NodeFilter, sortedKeys(ref)))
				}
			}
		}
		return
	}
	// a request that every node satisfies: memory-only, zero memory => unlimited capacity
	if op.Req.Bind || op.Req.MemReq != 0 || op.Req.CPUReq != 0 {
		return
	}
	w.probe("c21_selection_checked")
	if ref == nil {
		if err == nil {
			w.viol("C21", "unknown-include-accepted", "capacity", fmt.Sprintf("filter %+v names an unknown node but the request succeeded with %v", opts.NodeFilter, cm.NodeCapacities))
		}
		return
	}
	if err != nil {
		if len(ref) > 0 && !isInjected(err) {
			w.viol("C21", "selection-failed", "capacity", fmt.Sprintf("filter %+v selects %v but the request failed: %v", opts.NodeFilter, sortedKeys(ref), err))
		}
		return
	}
	got := map[string]bool{}
	for n := range cm.NodeCapacities {
		got[n] = true
	}
	if strings.Join(sortedKeys(got), ",") != strings.Join(sortedKeys(ref), ",") {
		w.res.Nontrivial = true
		rep := "no-repeats"
		seen := map[string]bool{}
		for _, n := range opts.NodeFilter.Includes {
			if seen[n] {
				rep = "repeated-includes"
			}
			seen[n] = true
		}
		w.viol("C21", "wrong-node-set", rep, fmt.Sprintf("filter %+v must select %v but the operation acted on %v", *opts.NodeFilter, sortedKeys(ref), sortedKeys(got)))
	} else {
		w.res.Nontrivial = true
	}
}
