package harness

import (
	"context"
	"encoding/json"
	"fmt"
	"math/rand/v2"
	"strings"
	"sync"
	"time"

	"github.com/projecteru2/core/lock"
	"github.com/projecteru2/core/store/etcdv3/meta"
	coretypes "github.com/projecteru2/core/types"
	"github.com/projecteru2/core/verifrt"

	"verif/sim/simetcd"
	"verif/sim/simrt"
)

// ---------------------------------------------------------------------------
// H-lock (C18, C19): contenders, each with its own client and its own lock objects
// (as the cluster creates them), lock / try-lock / hold / unlock on one key under the
// seeded scheduler; session loss by server-side lease revocation or by pausing the
// holder's client past the TTL.
// ---------------------------------------------------------------------------

type lockCfg struct {
	Backend    string `json:"backend"` // etcd | redis
	Contenders int    `json:"contenders"`
	TTLSec     int    `json:"ttl_sec"`
	TTLMs      int    `json:"ttl_ms,omitempty"` // fraction of a second on top
	Shared     bool   `json:"shared,omitempty"` // all contenders are goroutines of one process (one store object)
}

type lockOp struct {
	Who    int    `json:"who"`
	Kind   string `json:"kind"` // lock | trylock
	HoldMs int    `json:"hold_ms"`
	GapMs  int    `json:"gap_ms"`
	// Loss (C19): while holding, the holder loses its lock: "revoke" (lease revoked at
	// the server) or "pause" (the holder's client is cut off for longer than the TTL)
	Loss string `json:"loss,omitempty"`
	// DeadlineMs: the caller's context carries a deadline (an RPC deadline) that ends
	// before the lease would; it limits the wait, not the lease
	DeadlineMs int `json:"deadline_ms,omitempty"`
}

type lockH struct{}

func init() { Register("lock", lockH{}) }

func (lockH) Generate(property string, seed uint64, tier string) *Case {
	g := rand.New(rand.NewPCG(seed, 0x10c4))
	cfg := lockCfg{Backend: "etcd", Contenders: 2 + g.IntN(3), TTLSec: 6 + 3*g.IntN(3)}
	if g.IntN(2) == 0 && lockBackendAvailable("redis") {
		cfg.Backend = "redis"
	}
	n := 4 + g.IntN(8)
	var ops []json.RawMessage
	if property == "C19" && g.IntN(5) == 0 {
		// the lock context where it is used: a real cluster operation under a workload lock
		cfg.Backend = "calcium"
		for i := 0; i < 2+g.IntN(3); i++ {
			op := lockOp{Kind: "lock", GapMs: g.IntN(4000)}
			if g.IntN(3) != 0 {
				op.Loss = "revoke"
			}
			switch g.IntN(4) {
			case 0, 1:
				op.Kind, op.Who = "capacity", g.IntN(3) // a section under three locks; Who: which one is lost
			case 2:
				op.Kind = "remove" // the lock is lost during the first step of a two-step operation
			}
			ops = append(ops, mustJSON(op))
		}
		return &Case{Plan: simrt.Plan{Policy: []string{"random", "sticky", "fifo"}[g.IntN(3)], CrashAt: -1}, Cfg: mustJSON(cfg), Ops: ops}
	}
	for i := 0; i < n; i++ {
		op := lockOp{Who: g.IntN(cfg.Contenders), Kind: "lock", HoldMs: g.IntN(cfg.TTLSec * 400), GapMs: g.IntN(3000)}
		if g.IntN(3) == 0 {
			op.Kind = "trylock"
		}
		if g.IntN(6) == 0 && cfg.Backend == "etcd" {
			// a hold longer than the TTL, kept alive by keep-alives (the Redis lock has no
			// keep-alive: its holders stay within the lease only while they hold < TTL)
			op.HoldMs = cfg.TTLSec*1000 + g.IntN(4000)
		}
		if property == "C18" && g.IntN(6) == 0 {
			op.DeadlineMs = 1000 + g.IntN(cfg.TTLSec*500)
		}
		if property == "C19" && g.IntN(3) == 0 {
			op.Loss = []string{"revoke", "pause"}[g.IntN(2)]
			op.HoldMs = cfg.TTLSec*2000 + g.IntN(3000)
		}
		ops = append(ops, mustJSON(op))
	}
	plan := simrt.Plan{Policy: []string{"random", "sticky", "pct", "fifo"}[g.IntN(4)], CrashAt: -1}
	if property == "C18" && g.IntN(4) == 0 {
		// a convoy: a few contenders queue for the lock again and again, each wait well within
		// its timeout, so that one run sees many more polls of a held key than any one wait does
		cfg.Contenders, cfg.TTLSec = 3, 12
		ops = ops[:0]
		for i := 0; i < 14+g.IntN(10); i++ {
			ops = append(ops, mustJSON(lockOp{Who: i % 3, Kind: "lock", HoldMs: 2500 + g.IntN(1500), GapMs: g.IntN(200)}))
		}
	}
	if property == "C18" {
		cfg.Shared = g.IntN(2) == 0
		if g.IntN(2) == 0 {
			cfg.TTLMs = 500
		}
	}
	return &Case{Plan: plan, Cfg: mustJSON(cfg), Ops: ops}
}

type lockBackend interface {
	// newLock creates a fresh lock object for contender i.
	newLock(i int, key string, ttl time.Duration) (lock.DistributedLock, error)
	// revoke makes the current holder's lock disappear at the server; returns false if unsupported.
	revoke(key string) bool
	// pause cuts contender i off for d.
	pause(i int, d time.Duration)
	// holderToken identifies the current holder's lock at the server (etcd: its lease id; 0 = none).
	holderToken(key string) int64
	// revokeToken drops that lock at the server (session loss); false if it is already gone.
	revokeToken(key string, token int64) bool
	// lossTime returns when the server dropped the lock identified by token (zero = it did not).
	lossTime(token int64, acquiredAt time.Time, ttl time.Duration) time.Time
	// keepsAlive reports whether a holder may hold longer than the TTL (keep-alives).
	keepsAlive() bool
	close()
}

var lockBackends = map[string]func(sim *simrt.Sim, cfg lockCfg) lockBackend{}

func lockBackendAvailable(name string) bool { _, ok := lockBackends[name]; return ok }

// ---- etcd backend ----

type etcdLockBackend struct {
	sim     *simrt.Sim
	srv     *simetcd.Server
	handles []*simetcd.Handle
	kvs     []*meta.ETCD
}

func init() {
	lockBackends["etcd"] = func(sim *simrt.Sim, cfg lockCfg) lockBackend {
		b := &etcdLockBackend{sim: sim, srv: simetcd.NewServer(sim, "etcd")}
		n := cfg.Contenders
		if cfg.Shared {
			n = 1
		}
		for i := 0; i < n; i++ {
			h := b.srv.NewClient(sim.NewInstance(), fmt.Sprintf("etcd-c%d", i))
			b.handles = append(b.handles, h)
			b.kvs = append(b.kvs, meta.NewETCDWithClient(h.Client, coretypes.EtcdConfig{LockPrefix: "__lock__/eru"}))
		}
		return b
	}
}

func (b *etcdLockBackend) newLock(i int, key string, ttl time.Duration) (lock.DistributedLock, error) {
	return b.kvs[i%len(b.kvs)].CreateLock(key, ttl)
}

func (b *etcdLockBackend) holderLease(key string) int64 {
	// the owner is the lock key with the smallest create revision; with one holder
	// there is exactly one key whose lease is live and that is not waiting
	_, lease := b.srv.FirstCreated("/__lock__/eru/" + key + "/")
	return lease
}

func (b *etcdLockBackend) revoke(key string) bool {
	return false
}

func (b *etcdLockBackend) holderToken(key string) int64 { return b.holderLease(key) }
func (b *etcdLockBackend) revokeToken(key string, token int64) bool {
	return b.srv.RevokeLease(token)
}
func (b *etcdLockBackend) lossTime(token int64, _ time.Time, _ time.Duration) time.Time {
	return b.srv.LeaseEndOf(token)
}
func (b *etcdLockBackend) keepsAlive() bool { return true }

func (b *etcdLockBackend) pause(i int, d time.Duration) {
	b.sim.Pause(fmt.Sprintf("etcd-c%d", i), d)
}

func (b *etcdLockBackend) close() {
	for _, h := range b.handles {
		h.Close()
	}
}

// ---- execution ----

type lockEventRec struct {
	Who   int
	What  string // enter | exit | lost | ctxdone
	Step  int
	At    time.Duration
	Lease int64
}

func (lockH) Execute(c *Case, res *Result) {
	var cfg lockCfg
	_ = json.Unmarshal(c.Cfg, &cfg)
	if cfg.Backend == "calcium" {
		runCalciumLockLoss(c, res, cfg)
		return
	}
	sim := simrt.New(c.Seed, c.Plan)
	sim.KeepTrace = traceWanted
	verifrt.Permute = sim.Permute
	defer func() { verifrt.Permute = nil }()
	mk, ok := lockBackends[cfg.Backend]
	if !ok {
		res.Harness = "lock backend not available: " + cfg.Backend
		return
	}
	be := mk(sim, cfg)
	ttl := time.Duration(cfg.TTLSec)*time.Second + time.Duration(cfg.TTLMs)*time.Millisecond
	keepalive := ttl / 3
	const key = "thekey"
	var ops []lockOp
	for _, raw := range c.Ops {
		var op lockOp
		_ = json.Unmarshal(raw, &op)
		ops = append(ops, op)
	}
	var mu sync.Mutex
	holders := map[int]bool{}     // contenders inside the critical section whose lock context is still live
	inside := map[int]bool{}      // contenders inside the critical section (live or not)
	seen := map[string]bool{}
	viol := func(prop, rule, sig, detail string) {
		if seen[prop+rule+sig] {
			return
		}
		seen[prop+rule+sig] = true
		res.Violations = append(res.Violations, Violation{Property: prop, Rule: rule, Sig: sig, Detail: detail, Step: sim.Stats.Steps})
	}
	type lossRec struct {
		who      int
		lossAt   time.Time
		doneAt   time.Time
		kind     string
	}
	var losses []*lossRec
	overlapSince := map[int]time.Time{} // lost-but-untold holder coexisting with a new holder since
	lossActive := map[int]bool{}
	for who := 0; who < cfg.Contenders; who++ {
		who := who
		sim.Go(func() {
			ctx := context.Background()
			for i, op := range ops {
				if op.Who != who {
					continue
				}
				time.Sleep(time.Duration(op.GapMs)*time.Millisecond + offGrid(who))
				l, err := be.newLock(who, key, ttl)
				if err != nil {
					res.Probes["createlock_failed"]++
					continue
				}
				t0 := time.Now()
				var lctx context.Context
				actx, waitLimit := ctx, ttl
				if op.DeadlineMs > 0 {
					var cancel context.CancelFunc
					actx, cancel = context.WithTimeout(ctx, time.Duration(op.DeadlineMs)*time.Millisecond)
					defer cancel() // (at the end of the contender: the lock context may derive from it)
					if d := time.Duration(op.DeadlineMs) * time.Millisecond; d < waitLimit {
						waitLimit = d
					}
					res.Probes["acquire_under_caller_deadline"]++
				}
				if op.Kind == "trylock" {
					mu.Lock()
					heldByOther := len(inside) > 0
					mu.Unlock()
					lctx, err = l.TryLock(actx)
					if err != nil {
						res.Probes["trylock_refused"]++
						if d := time.Since(t0); d > 0 {
							viol("C18", "trylock-waited", cfg.Backend, fmt.Sprintf("op#%d: try-lock by contender %d failed only after waiting %v of virtual time", i, who, d))
						}
						_ = l.Unlock(ctx)
						continue
					}
					if d := time.Since(t0); d > 0 && heldByOther {
						viol("C18", "trylock-waited", cfg.Backend, fmt.Sprintf("op#%d: try-lock by contender %d on a held lock waited %v of virtual time and then acquired it", i, who, d))
					}
				} else {
					lctx, err = l.Lock(actx)
					if err != nil {
						res.Probes["lock_failed"]++
						waited := time.Since(t0)
						// (redislock gives up when its next retry, 500 ms away, would come too late)
						slack := time.Second
						if be.keepsAlive() {
							slack = 100 * time.Millisecond
						}
						if waited+slack < waitLimit && !strings.Contains(err.Error(), "injected") {
							viol("C18", "lock-gave-up-early", cfg.Backend, fmt.Sprintf("op#%d: lock by contender %d failed after only %v (wait timeout %v): %v", i, who, waited, waitLimit, err))
						}
						_ = l.Unlock(ctx)
						continue
					}
				}
				// ---- critical section ----
				mu.Lock()
				res.Nontrivial = true
				res.Probes["acquired"]++
				if time.Since(t0) > 0 {
					res.Probes["acquired_after_waiting"]++
				}
				for other := range holders {
					if other == who {
						continue
					}
					if lossActive[other] {
						// the other holder has lost its lock and has not been told yet: allowed,
						// but only for one keep-alive interval (C19)
						if _, ok := overlapSince[other]; !ok {
							overlapSince[other] = time.Now()
						}
						res.Probes["entered_while_lost_holder_untold"]++
						continue
					}
					viol("C18", "two-holders", cfg.Backend, fmt.Sprintf("op#%d: contender %d entered the critical section at %v while contender %d holds the lock with a live lock context", i, who, sim.Now(), other))
				}
				for other := range inside {
					if other != who && !holders[other] {
						res.Probes["entered_while_stale_holder_inside"]++
					}
				}
				holders[who], inside[who] = true, true
				acquiredAt := time.Now()
				lease := be.holderToken(key)
				mu.Unlock()
				// watch the lock context: the holder must be told when it loses the lock
				doneCh := make(chan struct{})
				exitCh := make(chan struct{})
				var myLoss *lossRec
				go func() {
					select {
					case <-lctx.Done():
						mu.Lock()
						delete(holders, who)
						if t, ok := overlapSince[who]; ok {
							if d := time.Since(t); d > keepalive+1500*time.Millisecond {
								viol("C19", "coexistence-too-long", cfg.Backend+":"+op.Loss, fmt.Sprintf("op#%d: contender %d kept a live lock context for %v while another contender held the lock (keep-alive interval %v)", i, who, d, keepalive))
							}
							delete(overlapSince, who)
						}
						if myLoss != nil {
							myLoss.doneAt = time.Now()
						}
						res.Probes["lock_ctx_cancelled"]++
						mu.Unlock()
						close(doneCh)
					case <-exitCh:
					}
				}()
				hold := time.Duration(op.HoldMs)*time.Millisecond + 4*offGrid(who)
				if op.Loss != "" {
					// lose the lock in the middle of the hold
					time.Sleep(hold / 4)
					mu.Lock()
					myLoss = &lossRec{who: who, kind: op.Loss}
					losses = append(losses, myLoss)
					lossActive[who] = true
					mu.Unlock()
					switch op.Loss {
					case "revoke":
						if lease != 0 && be.revokeToken(key, lease) {
							myLoss.lossAt = time.Now()
							res.Probes["lease_revoked"]++
						} else {
							myLoss.kind = ""
						}
					case "pause":
						be.pause(who, ttl+ttl/2)
						res.Probes["holder_paused"]++
					}
					time.Sleep(hold - hold/4)
					if op.Loss == "pause" && lease != 0 {
						if t := be.lossTime(lease, acquiredAt, ttl); !t.IsZero() {
							myLoss.lossAt = t
						}
					}
				} else {
					time.Sleep(hold)
				}
				mu.Lock()
				if t, ok := overlapSince[who]; ok && holders[who] {
					// still untold when leaving: the coexistence lasted until now
					if d := time.Since(t); d > keepalive+1500*time.Millisecond {
						viol("C19", "coexistence-too-long", cfg.Backend+":"+op.Loss, fmt.Sprintf("op#%d: contender %d kept a live lock context for %v while another contender held the lock (keep-alive interval %v)", i, who, d, keepalive))
					}
				}
				delete(overlapSince, who)
				delete(lossActive, who)
				delete(holders, who)
				delete(inside, who)
				mu.Unlock()
				close(exitCh)
				_ = l.Unlock(ctx)
				// C19 bookkeeping
				if myLoss != nil && myLoss.kind != "" && !myLoss.lossAt.IsZero() {
					select {
					case <-doneCh:
					default:
					}
					mu.Lock()
					lateness := myLoss.doneAt.Sub(myLoss.lossAt)
					told := !myLoss.doneAt.IsZero()
					mu.Unlock()
					res.Probes["loss_observed"]++
					// one keep-alive interval, plus the client's own polling granularity (the etcd
					// lessor looks at its leases every 500 ms and at deadlines every second)
					limit := keepalive + 1500*time.Millisecond
					if !told {
						viol("C19", "holder-never-told", cfg.Backend+":"+myLoss.kind, fmt.Sprintf("op#%d: contender %d lost its lock (%s) at %v but its lock context was still live when it left the critical section %v later", i, who, myLoss.kind, myLoss.lossAt.Sub(sim.Start), time.Since(myLoss.lossAt)))
					} else if lateness > limit {
						viol("C19", "holder-told-late", cfg.Backend+":"+myLoss.kind, fmt.Sprintf("op#%d: contender %d lost its lock (%s) but was told only %v later (keep-alive interval %v)", i, who, myLoss.kind, lateness, keepalive))
					}
				}
			}
		})
	}
	sim.Run(nil, 2*time.Hour)
	sim.Finish()
	if sim.Stuck {
		res.Stuck = sim.StuckWhy
		viol("C18", "no-progress", cfg.Backend, "contenders did not finish: "+sim.StuckWhy)
	}
	res.Stats = sim.Stats
	res.TraceHash = sim.TraceHash()
	res.Trace = sim.Trace
	res.OpsRun = len(ops)
	sim.Stop()
	be.close()
}
