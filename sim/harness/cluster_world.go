package harness

import (
	"context"
	cryptorand "crypto/rand"
	"encoding/json"
	"fmt"
	"io"
	"math/rand/v2"
	"os"
	"path/filepath"
	"sort"
	"strings"
	"sync"
	"time"

	"github.com/projecteru2/core/cluster/calcium"
	"github.com/projecteru2/core/engine"
	enginefactory "github.com/projecteru2/core/engine/factory"
	enginetypes "github.com/projecteru2/core/engine/types"
	"github.com/projecteru2/core/lock"
	"github.com/projecteru2/core/resource/cobalt"
	"github.com/projecteru2/core/resource/plugins/cpumem"
	cpumemtypes "github.com/projecteru2/core/resource/plugins/cpumem/types"
	"github.com/projecteru2/core/rpc"
	"github.com/projecteru2/core/store"
	"github.com/projecteru2/core/store/etcdv3"
	"github.com/projecteru2/core/store/etcdv3/meta"
	coretypes "github.com/projecteru2/core/types"
	"github.com/projecteru2/core/verifrt"
	"github.com/projecteru2/core/wal"
	"github.com/rs/zerolog"

	"verif/sim/simengine"
	"verif/sim/simetcd"
	"verif/sim/simrt"
)

const lockPrefix = "__lock__/eru"

// detReader replaces crypto/rand.Reader: workload name suffixes and process idents
// come from the run's PRNG.
type detReader struct{ r *rand.Rand }

func (d *detReader) Read(p []byte) (int, error) {
	for i := range p {
		p[i] = byte(d.r.Uint64())
	}
	return len(p), nil
}

// ---- lock monitor (C20) ----

type lockEvent struct {
	Gid  uint64
	Op   string // lock | trylock | unlock
	Key  string
	Held []string
	OK   bool
}

type lockMon struct {
	mu     sync.Mutex
	held   map[uint64][]string
	events int
	viol   func(rule, sig, detail string)
	probe  func(string)
}

func lockKind(key string) string {
	switch {
	case strings.HasPrefix(key, "plock_"):
		return "pod"
	case strings.HasPrefix(key, "clock_"):
		return "workload"
	case strings.HasPrefix(key, "cnode_op_"):
		return "nodeop"
	}
	return "other"
}

func (m *lockMon) attempt(key string) {
	gid := simrt.Goid()
	m.mu.Lock()
	defer m.mu.Unlock()
	m.events++
	held := m.held[gid]
	kind := lockKind(key)
	for _, h := range held {
		hk := lockKind(h)
		switch kind {
		case "pod":
			if hk == "workload" {
				m.viol("pod-after-workload", "lock-order", fmt.Sprintf("pod lock %s requested while holding workload lock %s (held %v)", key, h, held))
			}
			if hk == "pod" && key <= h {
				m.viol("pod-locks-not-ascending", "lock-order", fmt.Sprintf("pod lock %s requested while holding %s (held %v)", key, h, held))
			}
		case "workload":
			if hk == "workload" && key <= h {
				m.viol("workload-locks-not-ascending", "lock-order", fmt.Sprintf("workload lock %s requested while holding %s (held %v)", key, h, held))
			}
		case "nodeop":
			if hk != "nodeop" {
				m.viol("nodeop-while-holding", "lock-order", fmt.Sprintf("node-operation lock %s requested while holding %s (held %v)", key, h, held))
			} else if key <= h {
				m.viol("nodeop-locks-not-ascending", "lock-order", fmt.Sprintf("node-operation lock %s requested while holding %s", key, h))
			}
		}
	}
	if len(held) > 0 {
		m.probe("lock_requested_while_holding")
	}
}

func (m *lockMon) acquired(key string) {
	gid := simrt.Goid()
	m.mu.Lock()
	m.held[gid] = append(m.held[gid], key)
	m.mu.Unlock()
}

func (m *lockMon) released(key string) {
	gid := simrt.Goid()
	m.mu.Lock()
	h := m.held[gid]
	for i := len(h) - 1; i >= 0; i-- {
		if h[i] == key {
			h = append(h[:i], h[i+1:]...)
			break
		}
	}
	m.held[gid] = h
	m.mu.Unlock()
}

type monStore struct {
	store.Store
	mon *lockMon
}

type monLock struct {
	lock.DistributedLock
	key string
	mon *lockMon
}

func (s *monStore) CreateLock(key string, ttl time.Duration) (lock.DistributedLock, error) {
	l, err := s.Store.CreateLock(key, ttl)
	if err != nil {
		return l, err
	}
	return &monLock{DistributedLock: l, key: key, mon: s.mon}, nil
}

func (l *monLock) Lock(ctx context.Context) (context.Context, error) {
	l.mon.attempt(l.key)
	c, err := l.DistributedLock.Lock(ctx)
	if err == nil {
		l.mon.acquired(l.key)
	}
	return c, err
}

func (l *monLock) TryLock(ctx context.Context) (context.Context, error) {
	l.mon.attempt(l.key)
	c, err := l.DistributedLock.TryLock(ctx)
	if err == nil {
		l.mon.acquired(l.key)
	}
	return c, err
}

func (l *monLock) Unlock(ctx context.Context) error {
	l.mon.released(l.key)
	return l.DistributedLock.Unlock(ctx)
}

// ---- WAL seam ----

type simWAL struct {
	wal.WAL
	sim  *simrt.Sim
	inst *simrt.Instance
	mu   sync.Mutex
	// outstanding[type] = events logged through this wrapper and not yet committed
	outstanding map[string]int
}

func (w *simWAL) Log(typ string, item any) (wal.Commit, error) {
	if err := w.sim.Seam(w.inst, "wal", "Log "+typ, true); err != nil {
		return nil, err
	}
	commit, err := w.WAL.Log(typ, item)
	if err != nil {
		return nil, err
	}
	w.mu.Lock()
	w.outstanding[typ]++
	w.mu.Unlock()
	return func() error {
		if err := w.sim.Seam(w.inst, "wal", "Commit "+typ, true); err != nil {
			return err
		}
		if err := commit(); err != nil {
			return err
		}
		w.mu.Lock()
		w.outstanding[typ]--
		w.mu.Unlock()
		return nil
	}, nil
}

// ---- the world ----

type cluNode struct {
	Name    string            `json:"name"`
	Pod     string            `json:"pod"`
	Cores   int               `json:"cores"`
	Memory  int64             `json:"memory"`
	NUMA    bool              `json:"numa,omitempty"`
	Labels  map[string]string `json:"labels,omitempty"`
	HBTTL   int64             `json:"hb_ttl"` // heartbeat TTL in seconds (0 = no heartbeat: node is down)
	Beh     simengine.Behaviour `json:"beh"`
}

type cluCfg struct {
	ShareBase int       `json:"share_base"`
	MaxShare  int       `json:"max_share"`
	Pods      []string  `json:"pods"`
	Nodes     []cluNode `json:"nodes"`
	Tasks     int       `json:"tasks"`
	Mode      string    `json:"mode"` // seq | conc | crash
}

type coreInstance struct {
	inst   *simrt.Instance
	handle *simetcd.Handle
	ph     *simetcd.Handle
	cal    *calcium.Calcium
	wal    *simWAL
	walDir string
	ctx    context.Context
	cancel context.CancelFunc
}

type cluWorld struct {
	hmu     sync.Mutex
	vib     *rpc.Vibranium
	vibOf   *coreInstance
	sim     *simrt.Sim
	res     *Result
	prop    string
	cfg     cluCfg
	ccfg    coretypes.Config
	etcd    *simetcd.Server
	engines map[string]*simengine.Node
	shadow  *shadowPlugin // a second plugin (only where a harness sets it before boot)
	core    *coreInstance
	mon     *lockMon
	seenV   map[string]bool
	curOp   string
	opIndex int
	tmp     string
	concDone int
	concLog  []concRec
	setupDone bool
	owned    map[int]map[string]bool
	dissociated map[string]bool
	stoppedByOp map[string]bool
	remapDirty  map[string]bool // nodes whose capacity changed since their last re-map
	errLabels   []string        // labels of the seam calls failed by injection
	apps        map[string]bool // "app/entry" seen
	// C13 monitor
	mon13 *deployMonitor
}

func (w *cluWorld) viol(prop, rule, sig, detail string) {
	k := prop + rule + sig
	w.hmu.Lock()
	defer w.hmu.Unlock()
	if w.seenV[k] {
		return
	}
	w.seenV[k] = true
	w.res.Violations = append(w.res.Violations, Violation{Property: prop, Rule: rule, Sig: sig, Detail: detail + " [" + w.curOp + "]", OpIndex: w.opIndex, Step: w.sim.Stats.Steps})
}

// hmu guards the harness' own bookkeeping that client tasks of a concurrent history
// touch (probes, ownership, op log). The sections are tiny and sit at operation
// boundaries only, so the happens-before edges they add do not order the bodies of
// operations (C34 relies on that).
func (w *cluWorld) probe(name string) {
	w.hmu.Lock()
	w.res.Probes[name]++
	w.hmu.Unlock()
}

func (w *cluWorld) setFlag(m map[string]bool, k string, v bool) {
	w.hmu.Lock()
	if v {
		m[k] = true
	} else {
		delete(m, k)
	}
	w.hmu.Unlock()
}

func newCluWorld(sim *simrt.Sim, res *Result, prop string, cfg cluCfg, seed uint64) *cluWorld {
	w := &cluWorld{sim: sim, res: res, prop: prop, cfg: cfg, seenV: map[string]bool{}, engines: map[string]*simengine.Node{},
		owned: map[int]map[string]bool{}, dissociated: map[string]bool{}, stoppedByOp: map[string]bool{}, apps: map[string]bool{}, remapDirty: map[string]bool{}}
	for t := 0; t < max(1, cfg.Tasks); t++ {
		w.owned[t] = map[string]bool{} // one per client task, created before the tasks start
	}
	if prop == "C32" {
		sim.OnRelease = func(ev simrt.TraceEvent) {
			if ev.What == "err" {
				w.errLabels = append(w.errLabels, ev.Class+" "+ev.Label)
			}
		}
	}
	zerolog.SetGlobalLevel(zerolog.Disabled)
	verifrt.Permute = sim.Permute
	cryptorand.Reader = &detReader{r: rand.New(rand.NewPCG(seed^0x5555, 77))}
	w.etcd = simetcd.NewServer(sim, "etcd")
	base := "/dev/shm"
	if st, err := os.Stat(base); err != nil || !st.IsDir() {
		base = os.TempDir()
	}
	w.tmp, _ = os.MkdirTemp(base, "verif-wal-")
	w.mon = &lockMon{held: map[uint64][]string{}, probe: w.probe, viol: func(rule, sig, detail string) { w.viol("C20", rule, sig, detail) }}
	w.ccfg = coretypes.Config{
		LockTimeout: 30 * time.Second, GlobalTimeout: 300 * time.Second, ConnectionTimeout: 10 * time.Second,
		HAKeepaliveInterval: 16 * time.Second, MaxConcurrency: 100000, Store: "etcd", WALOpenTimeout: 8 * time.Second,
	}
	w.ccfg.Etcd.LockPrefix = lockPrefix
	w.ccfg.Scheduler.ShareBase = cfg.ShareBase
	w.ccfg.Scheduler.MaxShare = cfg.MaxShare
	w.ccfg.Scheduler.MaxDeployCount = 10000
	w.ccfg.GRPCConfig.ServiceDiscoveryPushInterval = time.Second
	for _, n := range cfg.Nodes {
		en := simengine.NewNode(n.Name, n.Cores, n.Memory)
		en.Beh = n.Beh
		w.engines[n.Name] = en
	}
	return w
}

// boot starts a (new) core instance over the shared store, engines and WAL file.
func (w *cluWorld) boot(prevWAL string) *coreInstance {
	ci := &coreInstance{inst: w.sim.NewInstance()}
	ci.ctx, ci.cancel = context.WithCancel(context.Background())
	ci.handle = w.etcd.NewClient(ci.inst, "etcd")
	ci.ph = w.etcd.NewClient(ci.inst, "pstore")
	kv := meta.NewETCDWithClient(ci.handle.Client, w.ccfg.Etcd)
	merc, err := etcdv3.NewWithKV(w.ccfg, kv)
	if err != nil {
		panic(err)
	}
	pkv := meta.NewETCDWithClient(ci.ph.Client, w.ccfg.Etcd)
	plugin := cpumem.NewPluginWithStore(w.ccfg, pkv)
	mgr, _ := cobalt.New(w.ccfg)
	mgr.AddPlugins(plugin)
	if w.shadow != nil {
		mgr.AddPlugins(w.shadow)
	}
	ci.walDir = filepath.Join(w.tmp, fmt.Sprintf("inst%d", ci.inst.ID))
	_ = os.MkdirAll(ci.walDir, 0o755)
	cfg := w.ccfg
	cfg.WALFile = filepath.Join(ci.walDir, "core.wal")
	if prevWAL != "" {
		// the new process opens the log file the dead one left behind (copied: the dead
		// process' file handle still holds the flock inside this OS process)
		if b, err := os.ReadFile(prevWAL); err == nil {
			_ = os.WriteFile(cfg.WALFile, b, 0o600)
		}
	}
	inst := ci.inst
	enginefactory.RegisterEngineForVerif("sim://", func(ctx context.Context, config coretypes.Config, nodename, endpoint, ca, cert, key string) (engine.API, error) {
		name := strings.TrimPrefix(endpoint, "sim://")
		en, ok := w.engines[name]
		if !ok {
			return nil, fmt.Errorf("simengine: unknown machine %s", name)
		}
		return &simengine.Engine{N: en, Sim: w.sim, Inst: inst, Params: &enginetypes.Params{Nodename: nodename, Endpoint: endpoint, CA: ca, Cert: cert, Key: key}}, nil
	})
	st := &monStore{Store: merc, mon: w.mon}
	enginefactory.ResetEngineCacheForVerif(cfg, st)
	cal, err := calcium.NewForVerif(ci.ctx, cfg, st, mgr, false, func(inner wal.WAL) wal.WAL {
		ci.wal = &simWAL{WAL: inner, sim: w.sim, inst: inst, outstanding: map[string]int{}}
		return ci.wal
	})
	if err != nil {
		panic(fmt.Sprintf("boot: %v", err))
	}
	ci.cal = cal
	return ci
}

func (w *cluWorld) cleanup() {
	_ = os.RemoveAll(w.tmp)
	verifrt.Permute, verifrt.Tick = nil, nil
}

// ---- state reading (direct, no seams) ----

type cluState struct {
	Pods       map[string]bool
	Nodes      map[string]*coretypes.Node
	NodePod    map[string]string // "pod/node" -> json
	Workloads  map[string]*coretypes.Workload
	NodeWL     map[string]map[string]bool // node -> ids
	Deploy     map[string]map[string]int  // "app/entry" -> node -> count
	Processing map[string]string
	Resource   map[string]*nodeRecord
	ResRaw     map[string]string
	Containers map[string][]string // node -> ids
}

func (w *cluWorld) readState() *cluState {
	s := &cluState{Pods: map[string]bool{}, Nodes: map[string]*coretypes.Node{}, NodePod: map[string]string{}, Workloads: map[string]*coretypes.Workload{},
		NodeWL: map[string]map[string]bool{}, Deploy: map[string]map[string]int{}, Processing: map[string]string{}, Resource: map[string]*nodeRecord{}, ResRaw: map[string]string{}, Containers: map[string][]string{}}
	snap := w.etcd.Snapshot("")
	for k, v := range snap {
		switch {
		case strings.HasPrefix(k, "/pod/info/"):
			s.Pods[strings.TrimPrefix(k, "/pod/info/")] = true
		case strings.HasPrefix(k, "/node/"):
			rest := strings.TrimPrefix(k, "/node/")
			switch {
			case strings.Contains(rest, ":pod/"):
				s.NodePod[strings.Replace(rest, ":pod/", "/", 1)] = v
			case strings.Contains(rest, ":workloads/"):
				i := strings.Index(rest, ":workloads/")
				n, id := rest[:i], rest[i+len(":workloads/"):]
				if s.NodeWL[n] == nil {
					s.NodeWL[n] = map[string]bool{}
				}
				s.NodeWL[n][id] = true
			case strings.Contains(rest, ":"):
			default:
				n := &coretypes.Node{}
				_ = json.Unmarshal([]byte(v), n)
				s.Nodes[rest] = n
			}
		case strings.HasPrefix(k, "/workloads/"):
			wl := &coretypes.Workload{}
			_ = json.Unmarshal([]byte(v), wl)
			s.Workloads[strings.TrimPrefix(k, "/workloads/")] = wl
		case strings.HasPrefix(k, "/deploy/"):
			p := strings.Split(strings.TrimPrefix(k, "/deploy/"), "/")
			if len(p) == 4 {
				ae := p[0] + "/" + p[1]
				if s.Deploy[ae] == nil {
					s.Deploy[ae] = map[string]int{}
				}
				s.Deploy[ae][p[2]]++
			}
		case strings.HasPrefix(k, "/processing/"):
			s.Processing[k] = v
		case strings.HasPrefix(k, "/resource/cpumem/"):
			r := &nodeRecord{}
			_ = json.Unmarshal([]byte(v), r)
			s.Resource[strings.TrimPrefix(k, "/resource/cpumem/")] = r
			s.ResRaw[strings.TrimPrefix(k, "/resource/cpumem/")] = v
		}
	}
	for n, en := range w.engines {
		s.Containers[n] = en.IDs()
	}
	return s
}

// canonical snapshot used for "nothing changed" comparisons (C11).
func (w *cluWorld) snapshot() map[string]string {
	out := map[string]string{}
	for k, v := range w.etcd.Snapshot("") {
		switch {
		case strings.HasPrefix(k, lockPrefix), strings.HasPrefix(k, "/"+lockPrefix):
		case strings.HasPrefix(k, "/status"), strings.HasPrefix(k, "/services"), strings.HasPrefix(k, "/selfmon"):
		case strings.HasPrefix(k, "/resource/cpumem/"):
			r := &nodeRecord{}
			_ = json.Unmarshal([]byte(v), r)
			out[k] = canonRecord(r)
		default:
			out[k] = v
		}
	}
	for n, en := range w.engines {
		for _, l := range en.Snapshot() {
			out["engine/"+n+"/"+l] = "1"
		}
	}
	return out
}

func diffSnap(a, b map[string]string) []string {
	var d []string
	for k, v := range a {
		if bv, ok := b[k]; !ok {
			d = append(d, "- "+k)
		} else if bv != v {
			d = append(d, "~ "+k+"\n     before "+trunc(v, 300)+"\n     after  "+trunc(bv, 300))
		}
	}
	for k := range b {
		if _, ok := a[k]; !ok {
			d = append(d, "+ "+k)
		}
	}
	sort.Strings(d)
	return d
}

func trunc(s string, n int) string {
	if len(s) > n {
		return s[:n] + "..."
	}
	return s
}

func wlRes(wl *coretypes.Workload) cpumemtypes.WorkloadResource {
	return parseWL(wl.Resources["cpumem"])
}

// checkUsage is R1: recorded usage of every node == sum over the workloads recorded on it.
func (w *cluWorld) checkUsage(s *cluState, prop, after string) {
	for _, name := range sortedKeys(s.Nodes) {
		rec := s.Resource[name]
		if rec == nil || rec.Usage == nil {
			continue
		}
		var cpu float64
		var mem int64
		cores := map[string]int{}
		numa := map[string]int64{}
		for id := range s.NodeWL[name] {
			wl := s.Workloads[id]
			if wl == nil {
				continue
			}
			r := wlRes(wl)
			cpu += r.CPURequest
			mem += r.MemoryRequest
			for c, p := range r.CPUMap {
				cores[c] += p
			}
			for k, v := range r.NUMAMemory {
				numa[k] += v
			}
		}
		bad := ""
		if d := rec.Usage.CPU - cpu; d > 1e-6 || d < -1e-6 {
			bad = fmt.Sprintf("cpu recorded %.6f != sum %.6f", rec.Usage.CPU, cpu)
		}
		if rec.Usage.Memory != mem {
			bad = fmt.Sprintf("memory recorded %d != sum %d", rec.Usage.Memory, mem)
		}
		ks := map[string]bool{}
		for k := range cores {
			ks[k] = true
		}
		for k := range rec.Usage.CPUMap {
			ks[k] = true
		}
		for _, k := range sortedKeys(ks) {
			if rec.Usage.CPUMap[k] != cores[k] {
				bad = fmt.Sprintf("core %s recorded %d != sum %d", k, rec.Usage.CPUMap[k], cores[k])
				break
			}
		}
		nk := map[string]bool{}
		for k := range numa {
			nk[k] = true
		}
		for k := range rec.Usage.NUMAMemory {
			nk[k] = true
		}
		for _, k := range sortedKeys(nk) {
			if rec.Usage.NUMAMemory[k] != numa[k] {
				bad = fmt.Sprintf("NUMA %s recorded %d != sum %d", k, rec.Usage.NUMAMemory[k], numa[k])
				break
			}
		}
		if bad != "" {
			w.viol(prop, "usage-neq-sum", after, fmt.Sprintf("node %s after %s: %s (workloads on node: %d; record %s)", name, after, bad, len(s.NodeWL[name]), canonRecord(rec)))
		}
	}
}

// concRec is what a concurrent history remembers of one operation (for classifying
// the cause of a referential inconsistency found at quiescence).
type concRec struct {
	Kind string
	Task int
	Node string
	Pod  string
	OK   bool
	// the scheduler steps at which the call was made and at which it returned
	Start, End int
}

// overlappingAdds reports whether two add-node calls for the name n were in flight at the
// same time (one of them failing): only that is the recorded race.
func (w *cluWorld) overlappingAdds(n string) bool {
	var adds []concRec
	for _, r := range w.concLog {
		if r.Kind == "add_node" && r.Node == n {
			adds = append(adds, r)
		}
	}
	for i := range adds {
		for j := i + 1; j < len(adds); j++ {
			if adds[i].Start <= adds[j].End && adds[j].Start <= adds[i].End {
				return true
			}
		}
	}
	return false
}

func (w *cluWorld) countOps(f func(r concRec) bool) int {
	n := 0
	for _, r := range w.concLog {
		if f(r) {
			n++
		}
	}
	return n
}

// checkRefs is R2 (C22). The signature of each violation names its cause in terms
// of the operations of the history, so that a recorded finding only matches the same
// race and not any other way of reaching the same kind of dangling reference.
func (w *cluWorld) checkRefs(s *cluState, after string) {
	for _, n := range sortedKeys(s.Nodes) {
		node := s.Nodes[n]
		if _, ok := s.Resource[n]; !ok {
			sig := after
			// two add-node calls for one name, one of which failed and rolled back the
			// resource record the other one had written
			if w.countOps(func(r concRec) bool { return r.Kind == "add_node" && r.Node == n }) >= 2 &&
				w.countOps(func(r concRec) bool { return r.Kind == "add_node" && r.Node == n && !r.OK }) >= 1 &&
				w.countOps(func(r concRec) bool { return r.Kind == "remove_node" && r.Node == n && r.OK }) == 0 {
				sig = "add-node-same-name-one-after-the-other"
				if w.overlappingAdds(n) {
					sig = "concurrent-add-node-same-name"
				}
			} else if w.countOps(func(r concRec) bool { return r.Kind == "add_node" && r.Node == n }) >= 1 &&
				w.countOps(func(r concRec) bool { return r.Kind == "remove_node" && r.Node == n && r.OK }) >= 1 {
				sig = "add-node-vs-remove-node-same-name"
			}
			w.viol("C22", "node-without-resource", sig, fmt.Sprintf("node %s is recorded but has no resource record", n))
		}
		if !s.Pods[node.Podname] {
			sig := after
			if w.countOps(func(r concRec) bool { return r.Kind == "remove_pod" && r.Pod == node.Podname && r.OK }) >= 1 &&
				w.countOps(func(r concRec) bool { return r.Kind == "add_node" && r.Node == n && r.Pod == node.Podname && r.OK }) >= 1 {
				sig = "add-node-vs-remove-pod"
			}
			w.viol("C22", "node-in-missing-pod", sig, fmt.Sprintf("node %s belongs to pod %s which does not exist", n, node.Podname))
		}
		if _, ok := s.NodePod[node.Podname+"/"+n]; !ok {
			w.viol("C22", "node-missing-pod-index", after, fmt.Sprintf("node %s has no pod index entry under pod %s", n, node.Podname))
		}
	}
	for _, n := range sortedKeys(s.Resource) {
		if _, ok := s.Nodes[n]; !ok {
			sig := after
			if w.countOps(func(r concRec) bool { return r.Kind == "add_node" && r.Node == n }) >= 1 &&
				w.countOps(func(r concRec) bool { return r.Kind == "remove_node" && r.Node == n && r.OK }) >= 1 {
				sig = "add-node-vs-remove-node-same-name"
			} else if w.countOps(func(r concRec) bool { return r.Kind == "add_node" && r.Node == n }) >= 2 && w.overlappingAdds(n) {
				sig = "concurrent-add-node-same-name"
			}
			w.viol("C22", "resource-without-node", sig, fmt.Sprintf("resource record for %s exists but the node is not recorded", n))
		}
	}
	for _, k := range sortedKeys(s.NodePod) {
		p := strings.SplitN(k, "/", 2)
		if _, ok := s.Nodes[p[1]]; !ok {
			w.viol("C22", "pod-index-without-node", after, fmt.Sprintf("pod index %s has no node record", k))
		}
		if !s.Pods[p[0]] {
			sig := after
			if w.countOps(func(r concRec) bool { return r.Kind == "remove_pod" && r.Pod == p[0] && r.OK }) >= 1 &&
				w.countOps(func(r concRec) bool { return r.Kind == "add_node" && r.Node == p[1] && r.Pod == p[0] && r.OK }) >= 1 {
				sig = "add-node-vs-remove-pod"
			}
			w.viol("C22", "pod-removed-with-nodes", sig, fmt.Sprintf("pod %s was removed but still has node %s", p[0], p[1]))
		}
	}
	for _, id := range sortedKeys(s.Workloads) {
		wl := s.Workloads[id]
		if _, ok := s.Nodes[wl.Nodename]; !ok {
			w.viol("C22", "workload-on-missing-node", w.missingNodeCause(wl.Nodename, after), fmt.Sprintf("workload %s is recorded on node %s which does not exist", shortID(id), wl.Nodename))
		}
	}
}

// missingNodeCause: a node that vanished under a recorded workload was removed by a
// successful remove-node racing with a create (the node looked empty when it was checked).
func (w *cluWorld) missingNodeCause(node, after string) string {
	if w.countOps(func(r concRec) bool { return r.Kind == "remove_node" && r.Node == node && r.OK }) >= 1 &&
		w.countOps(func(r concRec) bool { return r.Kind == "create" && r.OK }) >= 1 {
		return "remove-node-vs-create"
	}
	return after
}

func shortID(id string) string {
	if len(id) > 8 {
		return id[:4] + ".." + id[len(id)-4:]
	}
	return id
}

// checkDeployStatus is R3 (C13 end state).
func (w *cluWorld) checkDeployStatus(ctx context.Context, s *cluState, after string) {
	if len(s.Processing) > 0 {
		w.viol("C13", "marker-left", after, fmt.Sprintf("in-progress markers remain after %s: %v", after, sortedKeys(s.Processing)))
	}
	for _, ae := range sortedKeys(w.apps) {
		p := strings.SplitN(ae, "/", 2)
		got, err := w.core.cal.GetStore().GetDeployStatus(ctx, p[0], p[1])
		if err != nil {
			continue
		}
		want := map[string]int{}
		for id, wl := range s.Workloads {
			_ = id
			app, entry, ok := parseName(wl.Name)
			if ok && app == p[0] && entry == p[1] {
				want[wl.Nodename]++
			}
		}
		ks := map[string]bool{}
		for k := range got {
			ks[k] = true
		}
		for k := range want {
			ks[k] = true
		}
		for _, k := range sortedKeys(ks) {
			if got[k] != want[k] {
				w.viol("C13", "count-neq-recorded", after, fmt.Sprintf("deploy status of %s on node %s is %d but %d workloads are recorded", ae, k, got[k], want[k]))
			}
		}
	}
}

func parseName(name string) (app, entry string, ok bool) {
	p := strings.Split(name, "_")
	if len(p) < 3 {
		return "", "", false
	}
	return strings.Join(p[:len(p)-2], "_"), p[len(p)-2], true
}

// checkEngine is R4: containers <=> workload records.
func (w *cluWorld) checkEngine(s *cluState, prop, after string, exempt map[string]bool) {
	for _, id := range sortedKeys(s.Workloads) {
		wl := s.Workloads[id]
		en := w.engines[wl.Nodename]
		if en == nil {
			continue
		}
		c, ok := en.Get(id)
		if !ok {
			w.viol(prop, "record-without-container", after, fmt.Sprintf("workload %s is recorded on %s but the engine has no such container", shortID(id), wl.Nodename))
			continue
		}
		if !c.Running && !w.stoppedByOp[id] {
			w.viol(prop, "recorded-not-running", after, fmt.Sprintf("workload %s is recorded on %s but its container is not running", shortID(id), wl.Nodename))
		}
	}
	for _, n := range sortedKeys(s.Containers) {
		for _, id := range s.Containers[n] {
			if _, ok := s.Workloads[id]; ok || w.dissociated[id] || exempt[id] {
				continue
			}
			w.viol(prop, "container-without-record", after, fmt.Sprintf("engine of %s has container %s but no workload is recorded for it", n, shortID(id)))
		}
	}
}

var _ = io.EOF
