package harness

import (
	"context"
	"encoding/json"
	"fmt"
	"math/rand/v2"
	"sync"
	"time"

	"github.com/projecteru2/core/store/etcdv3/meta"
	coretypes "github.com/projecteru2/core/types"
	"github.com/projecteru2/core/verifrt"

	"verif/sim/simetcd"
	"verif/sim/simrt"
)

// ---------------------------------------------------------------------------
// H-eph (C26): several registrants (each its own client) call StartEphemeral on one
// key; a registrant may be cut off for longer than the TTL, may have its lease revoked
// at the server, or may deregister. Ground truth of ownership is the store itself.
// ---------------------------------------------------------------------------

type ephCfg struct {
	Backend     string `json:"backend"`
	Registrants int    `json:"registrants"`
	HeartbeatS  int    `json:"heartbeat_s"`
}

type ephOp struct {
	Who    int    `json:"who"`
	HoldMs int    `json:"hold_ms"`
	GapMs  int    `json:"gap_ms"`
	Event  string `json:"event,omitempty"` // "" | pause | revoke
	Tries  int    `json:"tries"`
}

type ephH struct{}

func init() { Register("eph", ephH{}) }

func (ephH) Generate(property string, seed uint64, tier string) *Case {
	g := rand.New(rand.NewPCG(seed, 0xe9e))
	cfg := ephCfg{Backend: "etcd", Registrants: 2 + g.IntN(2), HeartbeatS: 6 + 3*g.IntN(3)}
	if g.IntN(2) == 0 && ephBackendAvailable("redis") {
		cfg.Backend = "redis"
	}
	n := 3 + g.IntN(6)
	var ops []json.RawMessage
	for i := 0; i < n; i++ {
		op := ephOp{Who: g.IntN(cfg.Registrants), HoldMs: 1000 + g.IntN(cfg.HeartbeatS*2500), GapMs: g.IntN(4000), Tries: 1 + g.IntN(30)}
		switch g.IntN(4) {
		case 0:
			op.Event = "pause"
			op.HoldMs += cfg.HeartbeatS * 3000
		case 1:
			op.Event = "revoke"
			op.HoldMs += cfg.HeartbeatS * 1000
		}
		ops = append(ops, mustJSON(op))
	}
	return &Case{Plan: simrt.Plan{Policy: []string{"random", "sticky", "pct", "fifo"}[g.IntN(4)], CrashAt: -1}, Cfg: mustJSON(cfg), Ops: ops}
}

type ephBackend interface {
	start(i int, ctx context.Context, path string, hb time.Duration) (<-chan struct{}, func(), error)
	pause(i int, d time.Duration)
	// revokeOwner drops the current registration at the server; returns false if nothing to drop.
	revokeOwner(path string) bool
	// owner returns the registrant whose registration the key currently stems from (-1 none).
	owner(path string) int
	// foreignMutations counts refreshes/deletes of the key by a registrant that did not create it.
	foreignMutations() []string
	close()
}

var ephBackends = map[string]func(sim *simrt.Sim, cfg ephCfg) ephBackend{}

func ephBackendAvailable(n string) bool { _, ok := ephBackends[n]; return ok }

type etcdEph struct {
	sim     *simrt.Sim
	srv     *simetcd.Server
	handles []*simetcd.Handle
	kvs     []*meta.ETCD
}

func init() {
	ephBackends["etcd"] = func(sim *simrt.Sim, cfg ephCfg) ephBackend {
		b := &etcdEph{sim: sim, srv: simetcd.NewServer(sim, "etcd")}
		for i := 0; i < cfg.Registrants; i++ {
			h := b.srv.NewClient(sim.NewInstance(), fmt.Sprintf("etcd-r%d", i))
			b.handles = append(b.handles, h)
			b.kvs = append(b.kvs, meta.NewETCDWithClient(h.Client, coretypes.EtcdConfig{}))
		}
		return b
	}
}

func (b *etcdEph) start(i int, ctx context.Context, path string, hb time.Duration) (<-chan struct{}, func(), error) {
	return b.kvs[i].StartEphemeral(ctx, path, hb)
}
func (b *etcdEph) pause(i int, d time.Duration) { b.sim.Pause(fmt.Sprintf("etcd-r%d", i), d) }
func (b *etcdEph) revokeOwner(path string) bool {
	if l := b.srv.LeaseOf(path); l != 0 {
		return b.srv.RevokeLease(l)
	}
	return false
}
func (b *etcdEph) owner(path string) int {
	l := b.srv.LeaseOf(path)
	if l == 0 {
		return -1
	}
	var who int
	if _, err := fmt.Sscanf(b.srv.LeaseCreator[l], "etcd-r%d", &who); err != nil {
		return -1
	}
	return who
}
func (b *etcdEph) foreignMutations() []string { return nil } // etcd: refresh and revoke go by lease id
func (b *etcdEph) close() {
	for _, h := range b.handles {
		h.Close()
	}
}

func (ephH) Execute(c *Case, res *Result) {
	var cfg ephCfg
	_ = json.Unmarshal(c.Cfg, &cfg)
	sim := simrt.New(c.Seed, c.Plan)
	sim.KeepTrace = traceWanted
	verifrt.Permute = sim.Permute
	defer func() { verifrt.Permute = nil }()
	mk, ok := ephBackends[cfg.Backend]
	if !ok {
		res.Harness = "ephemeral backend not available: " + cfg.Backend
		return
	}
	be := mk(sim, cfg)
	hb := time.Duration(cfg.HeartbeatS) * time.Second
	tick := hb / 3
	slack := tick + 1500*time.Millisecond
	const path = "/services/10.0.0.1:5001"
	var ops []ephOp
	for _, raw := range c.Ops {
		var op ephOp
		_ = json.Unmarshal(raw, &op)
		ops = append(ops, op)
	}
	var mu sync.Mutex
	believes := map[int]bool{}
	since := map[int]time.Time{}
	pausedUntil := map[int]time.Time{}
	var lastReg time.Time // latest successful registration by anybody
	seen := map[string]bool{}
	viol := func(rule, sig, detail string) {
		if seen[rule+sig] {
			return
		}
		seen[rule+sig] = true
		res.Violations = append(res.Violations, Violation{Property: "C26", Rule: rule, Sig: sig, Detail: detail, Step: sim.Stats.Steps})
	}
	// checkPair runs some time after "who" registered: if "other" still believes and
	// has had a full heartbeat tick to find out, two registrants believe at once.
	var checkPair func(who, other int, registeredAt time.Time)
	checkPair = func(who, other int, registeredAt time.Time) {
		mu.Lock()
		defer mu.Unlock()
		if !believes[who] || !believes[other] || !since[who].Equal(registeredAt) {
			return
		}
		if since[other].After(registeredAt) {
			return // the other one registered later: its own check covers the pair
		}
		// the other registrant must have been able to talk to the store for a full tick
		if pu := pausedUntil[other]; time.Now().Before(pu.Add(slack)) {
			wait := pu.Add(slack).Sub(time.Now())
			time.AfterFunc(wait, func() { checkPair(who, other, registeredAt) })
			return
		}
		viol("two-believers", cfg.Backend, fmt.Sprintf("registrants %d (since %v) and %d (since %v) both believe they hold %s at %v; the older one has been able to reach the store for more than a heartbeat tick (%v)", other, since[other].Sub(sim.Start), who, since[who].Sub(sim.Start), path, sim.Now(), tick))
	}
	for who := 0; who < cfg.Registrants; who++ {
		who := who
		sim.Go(func() {
			ctx := context.Background()
			for i, op := range ops {
				if op.Who != who {
					continue
				}
				time.Sleep(time.Duration(op.GapMs)*time.Millisecond + offGrid(who))
				var expiry <-chan struct{}
				var unregister func()
				var err error
				for t := 0; t < op.Tries; t++ {
					expiry, unregister, err = be.start(who, ctx, path, hb)
					if err == nil {
						break
					}
					res.Probes["register_refused"]++
					time.Sleep(time.Second + offGrid(who))
				}
				if err != nil {
					continue
				}
				now := time.Now()
				mu.Lock()
				believes[who], since[who] = true, now
				lastReg = now
				res.Probes["registered"]++
				res.Nontrivial = true
				if o := be.owner(path); o != who {
					viol("registered-but-not-owner", cfg.Backend, fmt.Sprintf("op#%d: registrant %d was told it registered %s but the store says the owner is %d", i, who, path, o))
				}
				var others []int
				for o := 0; o < cfg.Registrants; o++ {
					if believes[o] && o != who {
						others = append(others, o)
					}
				}
				mu.Unlock()
				for _, o := range others {
					o := o
					res.Probes["registered_while_another_believes"]++
					time.AfterFunc(slack, func() { checkPair(who, o, now) })
				}
				closed := make(chan struct{})
				stop := make(chan struct{})
				go func() {
					select {
					case <-expiry:
						mu.Lock()
						if since[who].Equal(now) {
							believes[who] = false
						}
						res.Probes["expiry_notified"]++
						mu.Unlock()
						close(closed)
					case <-stop:
					}
				}()
				hold := time.Duration(op.HoldMs)*time.Millisecond + 4*offGrid(who)
				var lapseAt time.Time
				switch op.Event {
				case "pause":
					time.Sleep(hold / 4)
					d := hb + hb/2
					mu.Lock()
					pausedUntil[who] = time.Now().Add(d)
					mu.Unlock()
					be.pause(who, d)
					res.Probes["registrant_paused"]++
					time.Sleep(hold - hold/4)
				case "revoke":
					time.Sleep(hold / 4)
					if be.owner(path) == who && be.revokeOwner(path) {
						lapseAt = time.Now()
						res.Probes["registration_revoked"]++
					}
					time.Sleep(hold - hold/4)
				default:
					time.Sleep(hold)
				}
				// a lapsed registrant must have been notified by now (the hold after the
				// revocation is longer than a heartbeat)
				if !lapseAt.IsZero() {
					select {
					case <-closed:
					default:
						if time.Since(lapseAt) > slack {
							// cause: was the key simply gone, or had somebody else registered meanwhile
							mu.Lock()
							cause := ":key-gone"
							if lastReg.After(lapseAt) {
								cause = ":key-taken-over"
							}
							mu.Unlock()
							viol("lapse-not-notified", cfg.Backend+cause, fmt.Sprintf("op#%d: the registration of registrant %d was revoked at %v but its expiry channel is still open %v later (heartbeat tick %v)", i, who, lapseAt.Sub(sim.Start), time.Since(lapseAt), tick))
						}
					}
				}
				close(stop)
				mu.Lock()
				if since[who].Equal(now) {
					believes[who] = false
				}
				mu.Unlock()
				ownerBefore := be.owner(path)
				unregister()
				res.Probes["deregistered"]++
				// deregistering must not remove somebody else's registration
				if ownerBefore >= 0 && ownerBefore != who {
					if be.owner(path) != ownerBefore {
						viol("deregister-removed-foreign", cfg.Backend, fmt.Sprintf("op#%d: registrant %d deregistered and removed the registration of registrant %d", i, who, ownerBefore))
					}
				}
			}
		})
	}
	sim.Run(nil, 2*time.Hour)
	sim.Finish()
	for _, m := range be.foreignMutations() {
		viol("foreign-mutation", cfg.Backend, m)
	}
	if sim.Stuck {
		res.Stuck = sim.StuckWhy
	}
	res.Stats = sim.Stats
	res.TraceHash = sim.TraceHash()
	res.Trace = sim.Trace
	res.OpsRun = len(ops)
	sim.Stop()
	be.close()
}
