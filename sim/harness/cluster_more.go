package harness

import (
	"context"
	"encoding/json"
	"fmt"
	"strings"
	"sync"
	"time"

	"github.com/projecteru2/core/cluster"

	"github.com/projecteru2/core/rpc"
	pb "github.com/projecteru2/core/rpc/gen"
	"google.golang.org/grpc/metadata"
	coretypes "github.com/projecteru2/core/types"

	"verif/sim/simengine"
)

func newEngineNode(n cluNode) *simengine.Node {
	en := simengine.NewNode(n.Name, n.Cores, n.Memory)
	en.Beh = n.Beh
	return en
}

// execLambda is C30: run-and-wait workloads are always cleaned up.
func (w *cluWorld) execLambda(ctx context.Context, op cluOp) (out opOutcome) {
	opts := w.deployOpts(op)
	if op.Stdin {
		opts.Count = 1
		opts.DeployStrategy = "AUTO"
	}
	w.setFlag(w.apps, op.App+"/"+op.Entry, true)
	in := make(chan []byte)
	// a client may close its input at once, or leave it open for as long as it reads output
	leaveOpen := op.Stdin && op.Force
	if leaveOpen {
		w.probe("lambda_stdin_left_open")
		defer close(in)
	} else {
		close(in)
	}
	errFired0 := w.sim.Stats.ErrFired
	ids, ch, err := w.core.cal.RunAndWait(ctx, opts, in)
	if err != nil {
		out.err, out.failed = err, true
		return
	}
	last := map[string]*coretypes.AttachWorkloadMessage{}
	n := 0
	// "the output stream always closes": bounded in virtual time (nothing in a run-and-wait
	// of the simulated engines takes longer than the global timeout)
	watchdog := time.NewTimer(30 * time.Minute)
	defer watchdog.Stop()
drain:
	for {
		select {
		case m, ok := <-ch:
			if !ok {
				break drain
			}
			n++
			last[m.WorkloadID] = m
		case <-watchdog.C:
			w.viol("C30", "stream-never-closes", "lambda", fmt.Sprintf("the output stream of a run-and-wait (stdin=%v, input left open=%v) was still open after 30 minutes of virtual time; %d messages so far", op.Stdin, leaveOpen, n))
			out.err, out.failed = fmt.Errorf("stream never closed"), true
			return
		}
	}
	out.closed = true
	out.nMsgs = n
	w.probe("lambda_stream_closed")
	for _, id := range ids {
		if id == "" {
			continue
		}
		out.okIDs = append(out.okIDs, id)
		m := last[id]
		if m == nil {
			w.viol("C30", "no-final-message", "lambda", fmt.Sprintf("workload %s produced no message at all", shortID(id)))
			continue
		}
		d := string(m.Data)
		isExit := strings.HasPrefix(d, "[exitcode] ")
		isErr := m.StdStreamType == coretypes.EruError
		if !isExit && !isErr {
			w.viol("C30", "last-message-not-exitcode", "lambda", fmt.Sprintf("last message of %s is %q, neither an exit code nor an error", shortID(id), d))
		}
		if isExit {
			w.probe("lambda_exit_code_reported")
			w.res.Nontrivial = true
		}
		// the engine that ran it: when nothing failed (no injected failure in this
		// request, logs and wait scripted to work) the last message is the exit code the
		// engine reported, whatever its value
		for _, n := range sortedKeys(w.engines) {
			en := w.engines[n]
			ran := false
			for _, cid := range en.CreateLog {
				if cid == id {
					ran = true
				}
			}
			if !ran || en.Beh.LogsErr || en.Beh.WaitErr || w.sim.Stats.ErrFired != errFired0 {
				continue
			}
			want := fmt.Sprintf("[exitcode] %d", en.Beh.ExitCode)
			if d != want {
				w.viol("C30", "exit-code-not-reported", "lambda", fmt.Sprintf("workload %s exited with code %d and nothing failed, but its last message is %q (type %v), expected %q", shortID(id), en.Beh.ExitCode, d, m.StdStreamType, want))
			} else if en.Beh.ExitCode != 0 {
				w.probe("lambda_nonzero_exit_code_reported")
			}
		}
	}
	return
}

// after a lambda op has settled: nothing of it may remain.
func (w *cluWorld) checkLambdaClean(out opOutcome, post *cluState) {
	for _, id := range out.okIDs {
		if post.Workloads[id] != nil {
			w.viol("C30", "record-left", "lambda", fmt.Sprintf("run-and-wait workload %s is still recorded after its stream closed", shortID(id)))
		}
		for n, ids := range post.Containers {
			for _, c := range ids {
				if c == id {
					w.viol("C30", "container-left", "lambda", fmt.Sprintf("run-and-wait workload %s still has a container on %s", shortID(id), n))
				}
			}
		}
	}
	if w.core.wal != nil {
		w.core.wal.mu.Lock()
		o := w.core.wal.outstanding["create-lambda"]
		w.core.wal.mu.Unlock()
		if o != 0 {
			w.viol("C30", "wal-entry-left", "lambda", fmt.Sprintf("%d create-lambda log entries are still uncommitted after the stream closed", o))
		}
	}
}

// runConcOp: an operation inside a concurrent history; only per-op facts are
// recorded, the state oracles run at quiescence.
func (w *cluWorld) runConcOp(ctx context.Context, op cluOp, idx int) {
	defer func() { w.hmu.Lock(); w.concDone++; w.hmu.Unlock() }()
	pre := &cluState{Workloads: map[string]*coretypes.Workload{}}
	if op.Kind == "replace" {
		pre = w.readState()
	}
	start := w.sim.Stats.Steps
	out := w.execOp(ctx, op, nil, nil, pre)
	if out.skipped {
		return
	}
	w.probe("op_" + op.Kind)
	rec := concRec{Kind: op.Kind, Task: op.Task, OK: !out.failed, Start: start, End: w.sim.Stats.Steps}
	switch op.Kind {
	case "add_node":
		rec.Node, rec.Pod = op.NewName, w.podName(op.Pod)
	case "remove_node":
		rec.Node = w.nodeName(op.Node)
	case "add_pod":
		rec.Pod = op.NewName
	case "remove_pod":
		rec.Pod = w.podName(op.Pod)
	case "create":
		rec.OK = len(out.okIDs) > 0
	}
	w.hmu.Lock()
	w.concLog = append(w.concLog, rec)
	w.hmu.Unlock()
	if out.err != nil && strings.Contains(out.err.Error(), "context deadline exceeded") {
		w.probe("conc_op_timed_out")
		if w.sim.Stats.ErrFired == 0 && len(w.sim.Plan.ErrAt) == 0 {
			w.viol("C20", "lock-timeout-without-faults", "conc", fmt.Sprintf("op#%d %s ended with a timeout in a fault-free run: %v", idx, op.Kind, out.err))
		}
	}
}

// runCrashOp is C14: the process dies at a seam step of the last operation, a fresh
// instance recovers from the same store, engines and log file.
func (w *cluWorld) runCrashOp(ctx context.Context, op cluOp, relCrash int) {
	w.sim.SetFaultsEnabled(false)
	pre := w.readState()
	w.sim.Settle()
	w.sim.SetFaultsEnabled(true)
	base := w.sim.FaultIndex()
	w.sim.Plan.CrashAt = base + relCrash
	w.sim.Plan.CrashInst = w.core.inst.ID
	old := w.core
	done := make(chan opOutcome, 1)
	// the doomed operation runs in its own client task: it may never return
	go func() {
		done <- w.execOp(ctx, op, nil, nil, pre)
	}()
	var out opOutcome
	finished := false
	for i := 0; i < 100000 && !finished && !old.inst.Dead; i++ {
		select {
		case out = <-done:
			finished = true
		default:
			w.sim.Settle()
			if !old.inst.Dead {
				select {
				case out = <-done:
					finished = true
				default:
					time.Sleep(500 * time.Millisecond)
				}
			}
		}
	}
	if finished && !old.inst.Dead {
		// the crash point was beyond the end of the operation: nothing to recover
		w.sim.Plan.CrashAt = -1
		w.sim.Settle()
		w.probe("crash_point_beyond_op")
		w.res.Probes["last_op_faultable_calls"] = w.sim.FaultIndex() - base
		post := w.checkAll(ctx, "create-no-crash", nil)
		if op.Kind == "lambda" {
			w.checkLambdaClean(out, post)
		}
		return
	}
	w.probe("crashed_during_" + op.Kind)
	w.res.Nontrivial = true
	ident := w.lastIdent()
	// the machine restarts: dead sessions' leases lapse
	time.Sleep(45 * time.Second)
	w.sim.SetFaultsEnabled(false)
	w.core = w.boot(old.walDir + "/core.wal")
	w.core.cal.DisasterRecover(context.Background())
	w.sim.Settle()
	time.Sleep(40 * time.Second) // replay handlers run under a 32 s deadline; let stragglers finish
	w.sim.Settle()
	// containers created in the instant before the crash and not yet logged are exempt
	exempt := map[string]bool{}
	for _, en := range w.engines {
		for _, id := range en.IDs() {
			// the goroutine that created it made no further seam call: the process died
			// before it could log the new container
			if c, ok := en.Get(id); ok && c.Tid >= 0 && w.sim.ReleasedOf(c.Tid) == c.SeamAt {
				exempt[id] = true
			}
		}
	}
	w.curOp += fmt.Sprintf(" (crashed at faultable call %d, then recovered)", base+relCrash)
	post := w.readState()
	w.checkUsage(post, "C14", "recovery")
	for k := range post.Processing {
		if ident != "" && strings.HasSuffix(k, "/"+ident) {
			w.viol("C14", "marker-left", "recovery", fmt.Sprintf("in-progress marker %s of the interrupted deployment remains after recovery", k))
		}
	}
	for _, id := range sortedKeys(post.Workloads) {
		wl := post.Workloads[id]
		if pre.Workloads[id] != nil {
			continue
		}
		c, ok := w.engines[wl.Nodename].Get(id)
		if !ok {
			w.viol("C14", "recorded-without-container", "recovery", fmt.Sprintf("instance %s is recorded but has no container after recovery", shortID(id)))
		} else if !c.Running && op.Kind != "lambda" {
			w.viol("C14", "recorded-not-started", "recovery", fmt.Sprintf("instance %s is recorded but was never started", shortID(id)))
		}
	}
	exemptUsed := 0
	for _, n := range sortedKeys(post.Containers) {
		perNodeExempt := 0
		for _, id := range post.Containers[n] {
			if post.Workloads[id] != nil || w.dissociated[id] {
				continue
			}
			if exempt[id] {
				perNodeExempt++
				exemptUsed++
				continue
			}
			w.viol("C14", "container-without-record", "recovery", fmt.Sprintf("node %s keeps container %s which is not recorded and had been logged before the crash", n, shortID(id)))
		}
		_ = perNodeExempt
	}
	if exemptUsed > 0 {
		w.probe("crash_exempt_unlogged_container")
	}
	// the node resource check reports no differences
	for _, n := range sortedKeys(post.Nodes) {
		nr, err := w.core.cal.NodeResource(context.Background(), n, false)
		if err != nil {
			continue
		}
		for _, d := range nr.Diffs {
			if !strings.Contains(d, "inspect failed") {
				w.viol("C14", "node-resource-diffs", "recovery", fmt.Sprintf("node %s after recovery: %s", n, d))
			}
		}
	}
	w.sim.SetFaultsEnabled(true)
}

// lastIdent finds the process ident of the most recent deployment from its markers / log.
func (w *cluWorld) lastIdent() string {
	for k := range w.etcd.Snapshot("/processing/") {
		p := strings.Split(k, "/")
		return p[len(p)-1]
	}
	return ""
}

// vibranium returns the RPC layer over the running core instance (one per instance).
func (w *cluWorld) vibranium() *rpc.Vibranium {
	if w.vib == nil || w.vibOf != w.core {
		w.vib = rpc.New(w.core.cal, w.ccfg, make(chan struct{}))
		w.vibOf = w.core
	}
	return w.vib
}

// fakeListStream is the server side of a ListWorkloads stream.
type fakeListStream struct {
	ctx context.Context
	n   int
}

func (s *fakeListStream) Send(*pb.Workload) error       { s.n++; return nil }
func (s *fakeListStream) SetHeader(metadata.MD) error   { return nil }
func (s *fakeListStream) SendHeader(metadata.MD) error  { return nil }
func (s *fakeListStream) SetTrailer(metadata.MD)        {}
func (s *fakeListStream) Context() context.Context      { return s.ctx }
func (s *fakeListStream) SendMsg(m interface{}) error   { return nil }
func (s *fakeListStream) RecvMsg(m interface{}) error   { return nil }

// checkRemap is the cluster-level part of C32: after an operation that changed CPU
// bindings on a node and re-mapped it, every workload without CPU binding on that node
// has been given (engine update) exactly the cores that still have a full core's worth of
// free pieces - all cores if there is none. allowedStale is the number of workloads whose
// engine update itself was failed by injection in this operation.
func (w *cluWorld) checkRemap(post *cluState, nodes map[string]bool, allowedStale int, after string) {
	for _, n := range sortedKeys(nodes) {
		rec := post.Resource[n]
		en := w.engines[n]
		if rec == nil || rec.Capacity == nil || rec.Usage == nil || en == nil || w.remapDirty[n] {
			continue
		}
		share := map[string]bool{}
		for _, c := range sortedKeys(rec.Capacity.CPUMap) {
			if rec.Capacity.CPUMap[c]-rec.Usage.CPUMap[c] >= w.cfg.ShareBase {
				share[c] = true
			}
		}
		if len(share) == 0 {
			for _, c := range sortedKeys(rec.Capacity.CPUMap) {
				share[c] = true
			}
		}
		want := strings.Join(sortedKeys(share), ",")
		var stale []string
		checked := 0
		for _, id := range sortedKeys(post.NodeWL[n]) {
			wl := post.Workloads[id]
			if wl == nil || len(wlRes(wl).CPUMap) != 0 {
				continue // bound workloads are left alone
			}
			c, ok := en.Get(id)
			if !ok {
				continue
			}
			got := map[string]int{}
			if p, ok := c.Resource["cpumem"]; ok {
				b, _ := json.Marshal(p["cpu_map"])
				_ = json.Unmarshal(b, &got)
			}
			checked++
			if g := strings.Join(sortedKeys(got), ","); g != want {
				stale = append(stale, fmt.Sprintf("%s has cores [%s]", shortID(id), g))
			}
		}
		if checked > 0 {
			w.probe("c32_remap_checked")
		}
		if len(stale) > allowedStale {
			w.res.Nontrivial = true
			w.viol("C32", "unbound-workload-not-remapped", after, fmt.Sprintf("after %s on node %s the cores with a full free share are [%s], but %s (%d engine update(s) were failed by injection)", after, n, want, strings.Join(stale, "; "), allowedStale))
		}
	}
}

// createShim stands between the real RPC handler and the real cluster: the handler's
// request translation is bypassed (the prepared options are used), everything else —
// task bookkeeping, the loop that drains the result channel, what happens when the
// client's stream refuses a message — is the handler's own code. Every message the handler
// takes off the channel is recorded.
type createShim struct {
	cluster.Cluster
	opts *coretypes.DeployOptions
	mu   sync.Mutex
	seen []*coretypes.CreateWorkloadMessage
}

func (s *createShim) CreateWorkload(ctx context.Context, _ *coretypes.DeployOptions) (chan *coretypes.CreateWorkloadMessage, error) {
	ch, err := s.Cluster.CreateWorkload(ctx, s.opts)
	if err != nil {
		return nil, err
	}
	out := make(chan *coretypes.CreateWorkloadMessage)
	go func() {
		defer close(out)
		for m := range ch {
			out <- m
			s.mu.Lock()
			s.seen = append(s.seen, m)
			s.mu.Unlock()
		}
	}()
	return out, nil
}

// fakeCreateStream is the server side of a CreateWorkload stream whose client goes away:
// from the failFrom-th message on, Send fails.
type fakeCreateStream struct {
	ctx      context.Context
	n        int
	failFrom int
}

func (s *fakeCreateStream) Send(*pb.CreateWorkloadMessage) error {
	s.n++
	if s.failFrom > 0 && s.n >= s.failFrom {
		return fmt.Errorf("rpc error: code = Unavailable desc = transport is closing")
	}
	return nil
}
func (s *fakeCreateStream) SetHeader(metadata.MD) error  { return nil }
func (s *fakeCreateStream) SendHeader(metadata.MD) error { return nil }
func (s *fakeCreateStream) SetTrailer(metadata.MD)       {}
func (s *fakeCreateStream) Context() context.Context     { return s.ctx }
func (s *fakeCreateStream) SendMsg(m interface{}) error  { return nil }
func (s *fakeCreateStream) RecvMsg(m interface{}) error  { return nil }
