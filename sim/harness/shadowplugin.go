package harness

import (
	"context"
	"math"
	"sync"
	"time"

	enginetypes "github.com/projecteru2/core/engine/types"
	plugintypes "github.com/projecteru2/core/resource/plugins/types"

	"verif/sim/simrt"
)

// shadowPlugin is a second resource plugin next to the real cpumem: it books nothing and
// agrees to everything, but every call is a (faultable) step of the simulation. With it the
// resource manager's multi-plugin paths run: when this party fails after cpumem has
// written, the manager has to put cpumem's record back.
type shadowPlugin struct {
	sim  *simrt.Sim
	inst *simrt.Instance
	// slowCapacity: a capacity query takes this long unless the caller's context ends first
	// (C19 at the calcium level watches under which context a multi-lock section runs)
	mu           sync.Mutex
	slowCapacity time.Duration
	// slowUsage: a usage update takes this long and does not look at its context (a party
	// that finishes what it started)
	slowUsage time.Duration
	cancelledAt  []time.Time
}

func (p *shadowPlugin) cancelled() []time.Time {
	p.mu.Lock()
	defer p.mu.Unlock()
	return append([]time.Time{}, p.cancelledAt...)
}

func (p *shadowPlugin) Name() string { return "shadow" }

func (p *shadowPlugin) step(what string) error {
	return p.sim.Seam(p.inst, "shadow-plugin", what, true)
}

func (p *shadowPlugin) CalculateDeploy(ctx context.Context, nodename string, deployCount int, _ plugintypes.WorkloadResourceRequest) (*plugintypes.CalculateDeployResponse, error) {
	if err := p.step("CalculateDeploy"); err != nil {
		return nil, err
	}
	r := &plugintypes.CalculateDeployResponse{}
	for i := 0; i < deployCount; i++ {
		r.EnginesParams = append(r.EnginesParams, plugintypes.EngineParams{})
		r.WorkloadsResource = append(r.WorkloadsResource, plugintypes.WorkloadResource{})
	}
	return r, nil
}

func (p *shadowPlugin) CalculateRealloc(ctx context.Context, nodename string, _ plugintypes.WorkloadResource, _ plugintypes.WorkloadResourceRequest) (*plugintypes.CalculateReallocResponse, error) {
	if err := p.step("CalculateRealloc"); err != nil {
		return nil, err
	}
	return &plugintypes.CalculateReallocResponse{EngineParams: plugintypes.EngineParams{}, DeltaResource: plugintypes.WorkloadResource{}, WorkloadResource: plugintypes.WorkloadResource{}}, nil
}

func (p *shadowPlugin) CalculateRemap(ctx context.Context, nodename string, _ map[string]plugintypes.WorkloadResource) (*plugintypes.CalculateRemapResponse, error) {
	if err := p.step("CalculateRemap"); err != nil {
		return nil, err
	}
	return &plugintypes.CalculateRemapResponse{EngineParamsMap: map[string]plugintypes.EngineParams{}}, nil
}

func (p *shadowPlugin) AddNode(ctx context.Context, nodename string, _ plugintypes.NodeResourceRequest, _ *enginetypes.Info) (*plugintypes.AddNodeResponse, error) {
	if err := p.step("AddNode"); err != nil {
		return nil, err
	}
	return &plugintypes.AddNodeResponse{Capacity: plugintypes.NodeResource{}, Usage: plugintypes.NodeResource{}}, nil
}

func (p *shadowPlugin) RemoveNode(ctx context.Context, nodename string) (*plugintypes.RemoveNodeResponse, error) {
	if err := p.step("RemoveNode"); err != nil {
		return nil, err
	}
	return &plugintypes.RemoveNodeResponse{}, nil
}

func (p *shadowPlugin) GetNodesDeployCapacity(ctx context.Context, nodenames []string, _ plugintypes.WorkloadResourceRequest) (*plugintypes.GetNodesDeployCapacityResponse, error) {
	if err := p.step("GetNodesDeployCapacity"); err != nil {
		return nil, err
	}
	p.mu.Lock()
	d := p.slowCapacity
	p.mu.Unlock()
	if d > 0 {
		t := time.NewTimer(d)
		defer t.Stop()
		select {
		case <-ctx.Done():
			p.mu.Lock()
			p.cancelledAt = append(p.cancelledAt, time.Now())
			p.mu.Unlock()
			return nil, ctx.Err()
		case <-t.C:
		}
	}
	r := &plugintypes.GetNodesDeployCapacityResponse{NodeDeployCapacityMap: map[string]*plugintypes.NodeDeployCapacity{}, Total: math.MaxInt64}
	for _, n := range nodenames {
		r.NodeDeployCapacityMap[n] = &plugintypes.NodeDeployCapacity{Capacity: math.MaxInt64, Weight: 1}
	}
	return r, nil
}

func (p *shadowPlugin) SetNodeResourceCapacity(ctx context.Context, nodename string, _ plugintypes.NodeResource, _ plugintypes.NodeResourceRequest, _ bool, _ bool) (*plugintypes.SetNodeResourceCapacityResponse, error) {
	if err := p.step("SetNodeResourceCapacity"); err != nil {
		return nil, err
	}
	return &plugintypes.SetNodeResourceCapacityResponse{Before: plugintypes.NodeResource{}, After: plugintypes.NodeResource{}}, nil
}

func (p *shadowPlugin) GetNodeResourceInfo(ctx context.Context, nodename string, _ []plugintypes.WorkloadResource) (*plugintypes.GetNodeResourceInfoResponse, error) {
	if err := p.step("GetNodeResourceInfo"); err != nil {
		return nil, err
	}
	return &plugintypes.GetNodeResourceInfoResponse{Capacity: plugintypes.NodeResource{}, Usage: plugintypes.NodeResource{}, Diffs: []string{}}, nil
}

func (p *shadowPlugin) SetNodeResourceInfo(ctx context.Context, nodename string, _ plugintypes.NodeResource, _ plugintypes.NodeResource) (*plugintypes.SetNodeResourceInfoResponse, error) {
	if err := p.step("SetNodeResourceInfo"); err != nil {
		return nil, err
	}
	return &plugintypes.SetNodeResourceInfoResponse{}, nil
}

func (p *shadowPlugin) SetNodeResourceUsage(ctx context.Context, nodename string, _ plugintypes.NodeResource, _ plugintypes.NodeResourceRequest, _ []plugintypes.WorkloadResource, _ bool, _ bool) (*plugintypes.SetNodeResourceUsageResponse, error) {
	if err := p.step("SetNodeResourceUsage"); err != nil {
		return nil, err
	}
	p.mu.Lock()
	d := p.slowUsage
	p.mu.Unlock()
	if d > 0 {
		time.Sleep(d)
	}
	return &plugintypes.SetNodeResourceUsageResponse{Before: plugintypes.NodeResource{}, After: plugintypes.NodeResource{}}, nil
}

func (p *shadowPlugin) GetMostIdleNode(ctx context.Context, nodenames []string) (*plugintypes.GetMostIdleNodeResponse, error) {
	if err := p.step("GetMostIdleNode"); err != nil {
		return nil, err
	}
	r := &plugintypes.GetMostIdleNodeResponse{}
	if len(nodenames) > 0 {
		r.Nodename = nodenames[0]
	}
	return r, nil
}

func (p *shadowPlugin) FixNodeResource(ctx context.Context, nodename string, w []plugintypes.WorkloadResource) (*plugintypes.GetNodeResourceInfoResponse, error) {
	return p.GetNodeResourceInfo(ctx, nodename, w)
}

func (p *shadowPlugin) GetMetricsDescription(ctx context.Context) (*plugintypes.GetMetricsDescriptionResponse, error) {
	return &plugintypes.GetMetricsDescriptionResponse{}, nil
}

func (p *shadowPlugin) GetMetrics(ctx context.Context, podname, nodename string) (*plugintypes.GetMetricsResponse, error) {
	return &plugintypes.GetMetricsResponse{}, nil
}
