package harness

import (
	"context"
	"encoding/json"
	"fmt"
	"math/rand/v2"
	"sort"
	"strings"
	"time"

	resourcetypes "github.com/projecteru2/core/resource/types"
	coretypes "github.com/projecteru2/core/types"
	"github.com/projecteru2/core/verifrt"

	"verif/sim/simrt"
)

// ---------------------------------------------------------------------------
// H-cluster: real Calcium + cobalt + cpumem + Mercury + etcd concurrency + WAL over
// simulated etcd, simulated node engines and a real bbolt log file.
// ---------------------------------------------------------------------------

type cluOp struct {
	Kind     string            `json:"kind"`
	Task     int               `json:"task,omitempty"`
	Pod      int               `json:"pod,omitempty"`
	Node     int               `json:"node,omitempty"`
	App      string            `json:"app,omitempty"`
	Entry    string            `json:"entry,omitempty"`
	Strategy string            `json:"strategy,omitempty"`
	Count    int               `json:"count,omitempty"`
	Limit    int               `json:"limit,omitempty"`
	Includes []int             `json:"includes,omitempty"`
	Excludes []int             `json:"excludes,omitempty"`
	Labels   map[string]string `json:"labels,omitempty"`
	All      bool              `json:"all,omitempty"`
	UsePod   bool              `json:"use_pod,omitempty"`
	Req      resReq            `json:"req"`
	Slot     int               `json:"slot,omitempty"`
	Slots    []int             `json:"slots,omitempty"`
	Force    bool              `json:"force,omitempty"`
	Ctl      string            `json:"ctl,omitempty"`
	Fix      bool              `json:"fix,omitempty"`
	Delta    bool              `json:"delta,omitempty"`
	CapCPU   int               `json:"cap_cpu,omitempty"`
	CapMem   int64             `json:"cap_mem,omitempty"`
	Bypass   int               `json:"bypass,omitempty"`
	Down     bool              `json:"down,omitempty"`
	Secs     int               `json:"secs,omitempty"`
	NewName  string            `json:"new_name,omitempty"`
	Stdin    bool              `json:"stdin,omitempty"`
	IgnHook  bool              `json:"ignore_hook,omitempty"`
	// ClientGone: the create goes through the RPC handler and the client's stream refuses
	// every message from this one on
	ClientGone int `json:"client_gone,omitempty"`
}

type cluH struct{}

func init() { Register("cluster", cluH{}) }

var appNames = []string{"app", "web", "a_b"}
var entryNames = []string{"main", "api", "main2"} // (one entrypoint name is a prefix of another)
var strategies = []string{"AUTO", "AUTO", "FILL", "EACH", "GLOBAL", "DRAINED"}

func genCluCfg(g *rand.Rand, property string) cluCfg {
	cfg := cluCfg{ShareBase: 100, MaxShare: -1, Tasks: 1, Mode: "seq"}
	if g.IntN(8) == 0 {
		cfg.ShareBase = 10
	}
	np := 1 + g.IntN(2)
	for i := 0; i < np; i++ {
		cfg.Pods = append(cfg.Pods, fmt.Sprintf("p%d", i))
	}
	nn := 1 + g.IntN(4)
	for i := 0; i < nn; i++ {
		n := cluNode{Name: fmt.Sprintf("n%d", i), Pod: cfg.Pods[g.IntN(np)], Cores: 1 + g.IntN(6), Memory: int64(2+g.IntN(30)) * 512 * mib, HBTTL: 86400}
		if n.Cores >= 2 && g.IntN(3) == 0 {
			n.NUMA = true
		}
		if g.IntN(3) == 0 {
			n.Labels = map[string]string{"zone": fmt.Sprintf("z%d", g.IntN(2))}
			if g.IntN(4) == 0 {
				n.Labels["gpu"] = ""
			}
		}
		cfg.Nodes = append(cfg.Nodes, n)
	}
	return cfg
}

func genFilter(g *rand.Rand, cfg *cluCfg, op *cluOp) {
	op.Pod = g.IntN(len(cfg.Pods))
	switch g.IntN(4) {
	case 0: // explicit includes, any order, with repeats
		k := 1 + g.IntN(3)
		for i := 0; i < k; i++ {
			op.Includes = append(op.Includes, g.IntN(len(cfg.Nodes)))
		}
		op.UsePod = g.IntN(2) == 0 // the RPC layer sends the pod name along with the include list
	case 1:
		op.UsePod = true
		if g.IntN(2) == 0 {
			op.Excludes = []int{g.IntN(len(cfg.Nodes))}
		}
		if g.IntN(3) == 0 {
			op.Labels = map[string]string{"zone": fmt.Sprintf("z%d", g.IntN(2))}
			if g.IntN(4) == 0 {
				// a label asked for with an empty value: only nodes that carry the key match
				op.Labels = map[string]string{[]string{"zone", "gpu"}[g.IntN(2)]: ""}
			}
		}
	default:
		op.UsePod = true
	}
	op.All = g.IntN(4) == 0
}

func genCreate(g *rand.Rand, cfg *cluCfg, property string) cluOp {
	op := cluOp{Kind: "create", App: appNames[g.IntN(len(appNames))], Entry: entryNames[g.IntN(len(entryNames))]}
	op.Strategy = strategies[g.IntN(len(strategies))]
	op.Count = 1 + g.IntN(3)
	if g.IntN(3) == 0 {
		op.Limit = 1 + g.IntN(3)
	}
	genFilter(g, cfg, &op)
	op.IgnHook = g.IntN(3) == 0
	rc := resCfg{ShareBase: cfg.ShareBase}
	op.Req = genReq(g, &rc, "")
	if op.Req.MemReq > 1024*mib {
		op.Req.MemReq = int64(1+g.IntN(8)) * 128 * mib
		if op.Req.MemLimit > 0 {
			op.Req.MemLimit = op.Req.MemReq
		}
	}
	return op
}

func genCluOp(g *rand.Rand, cfg *cluCfg, property string, i int) cluOp {
	x := g.IntN(100)
	op := cluOp{Slot: g.IntN(64), Node: g.IntN(len(cfg.Nodes)), Pod: g.IntN(len(cfg.Pods))}
	switch {
	case x < 34:
		return genCreate(g, cfg, property)
	case x < 46:
		op.Kind = "remove"
		op.Slots = []int{g.IntN(64)}
		if g.IntN(3) == 0 {
			op.Slots = append(op.Slots, g.IntN(64))
		}
		// always forced: a non-forced removal of a running container is refused by the
		// engine, and together with the injected failure that would be two failures in
		// one operation, which the properties do not quantify over
		op.Force = true
	case x < 52:
		op.Kind = "dissociate"
		op.Slots = []int{g.IntN(64)}
	case x < 66:
		op.Kind = "realloc"
		sb := cfg.ShareBase
		r := resReq{Keep: g.IntN(2) == 0}
		if !r.Keep {
			r.Bind = g.IntN(2) == 0
		}
		switch g.IntN(3) {
		case 0:
			r.CPUReq = 0
		case 1:
			r.CPUReq = -float64(1+g.IntN(sb/2)) / float64(sb)
		default:
			r.CPUReq = float64(1+g.IntN(sb)) / float64(sb)
		}
		switch g.IntN(3) {
		case 1:
			r.MemReq = -int64(1+g.IntN(2)) * 64 * mib
		case 2:
			r.MemReq = int64(1+g.IntN(4)) * 128 * mib
		}
		op.Req = r
	case x < 72:
		op.Kind = "replace"
		op.App = appNames[g.IntN(len(appNames))]
		op.Entry = entryNames[g.IntN(len(entryNames))]
	case x < 80:
		op.Kind = "set_node"
		op.Delta = g.IntN(3) != 0
		switch g.IntN(3) {
		case 0:
			op.CapMem = int64(1+g.IntN(4)) * 256 * mib
		case 1:
			op.CapCPU = 1 + g.IntN(2)
		default:
			op.CapMem = int64(1+g.IntN(4)) * 256 * mib
			op.CapCPU = 1
		}
		if !op.Delta {
			op.CapCPU = 0 // absolute cpu maps replace the layout; keep to memory
			if op.CapMem == 0 {
				op.CapMem = int64(4+g.IntN(16)) * 512 * mib
			}
		}
		op.Bypass = g.IntN(3)
		if g.IntN(4) == 0 {
			op.Labels = map[string]string{"zone": fmt.Sprintf("z%d", g.IntN(2))}
		}
	case x < 84:
		op.Kind = "control"
		op.Ctl = []string{"stop", "start", "restart"}[g.IntN(3)]
		if g.IntN(2) == 0 {
			op.Slots = []int{g.IntN(64), g.IntN(64)} // several workloads in one call
		}
	case x < 88:
		op.Kind = "node_resource"
		op.Fix = g.IntN(2) == 0
	case x < 91:
		op.Kind = "capacity"
		c := genCreate(g, cfg, property)
		c.Kind = "capacity"
		if g.IntN(2) == 0 {
			c.Strategy = "DUMMY"
		}
		return c
	case x < 94:
		op.Kind = "add_node"
		op.NewName = fmt.Sprintf("x%d", g.IntN(3))
	case x < 97:
		op.Kind = "remove_node"
	case x < 98:
		op.Kind = "add_pod"
		op.NewName = fmt.Sprintf("q%d", g.IntN(2))
	default:
		op.Kind = "remove_pod"
	}
	return op
}

func (cluH) Generate(property string, seed uint64, tier string) *Case {
	g := rand.New(rand.NewPCG(seed, 0xc1a57e5))
	cfg := genCluCfg(g, property)
	plan := simrt.Plan{Policy: "fifo", CrashAt: -1}
	if g.IntN(2) == 0 {
		plan.MapSeed = g.Uint64() | 1
	}
	nops := 3 + g.IntN(8)
	var ops []json.RawMessage
	switch property {
	case "C14":
		cfg.Mode = "crash"
		nops = g.IntN(3)
		for i := 0; i < nops; i++ {
			ops = append(ops, mustJSON(genCluOp(g, &cfg, property, i)))
		}
		// C14 is about crashes while *creating* workloads. (A run-and-wait also removes
		// its workload at the end; a crash inside that removal is outside C14 and is
		// described in DESIGN.md as an observation.)
		c := genCreate(g, &cfg, property)
		ops = append(ops, mustJSON(c))
		plan.CrashAt = g.IntN(140) // relative to the first faultable call of the last op
	case "C22":
		cfg.Mode = "conc"
		cfg.Tasks = 2 + g.IntN(2)
		plan.Policy = []string{"random", "sticky", "pct"}[g.IntN(3)]
		for i := 0; i < nops+3; i++ {
			var op cluOp
			switch g.IntN(8) {
			case 0:
				op = cluOp{Kind: "add_pod", NewName: fmt.Sprintf("q%d", g.IntN(2))}
			case 1:
				op = cluOp{Kind: "remove_pod", Pod: g.IntN(len(cfg.Pods) + 2)}
			case 2, 3:
				op = cluOp{Kind: "add_node", NewName: fmt.Sprintf("x%d", g.IntN(3)), Pod: g.IntN(len(cfg.Pods) + 2)}
			case 4, 5:
				op = cluOp{Kind: "remove_node", Node: g.IntN(len(cfg.Nodes) + 3)}
			case 6:
				op = genCreate(g, &cfg, property)
			default:
				op = cluOp{Kind: "remove", Slots: []int{g.IntN(64)}, Force: true}
			}
			op.Task = g.IntN(cfg.Tasks)
			ops = append(ops, mustJSON(op))
		}
		if g.IntN(2) == 0 {
			plan.ErrAt = []int{g.IntN(200)}
		}
		// some machines are down from the start (no heartbeat): they still belong to their pod
		for i := range cfg.Nodes {
			if g.IntN(4) == 0 {
				cfg.Nodes[i].HBTTL = 0
			}
		}
	default:
		conc := false
		switch property {
		case "C10", "C13", "C20":
			conc = g.IntN(2) == 0
		case "C34":
			conc = true
		case "C32":
			// binding changes on one node by several clients at once, the engines slow to take
			// new parameters: several re-maps of one node are in flight at the same time
			conc = g.IntN(3) == 0
		}
		if conc {
			cfg.Mode = "conc"
			cfg.Tasks = 2 + g.IntN(3)
			plan.Policy = []string{"random", "sticky", "pct"}[g.IntN(3)]
		}
		if property == "C34" {
			// race build: parked calls are released in batches whose members the race
			// detector sees as concurrent
			plan.Policy = "batch"
			nops += 4
			if g.IntN(5) == 0 {
				// machines that refuse every create: the failure paths of the per-node
				// goroutines of one deployment run side by side
				for i := range cfg.Nodes {
					cfg.Nodes[i].Beh.CreateErr = g.IntN(4) != 0
				}
			}
		}
		for i := 0; i < nops; i++ {
			op := genCluOp(g, &cfg, property, i)
			if property == "C30" && g.IntN(2) == 0 {
				op = genCreate(g, &cfg, property)
				op.Kind = "lambda"
				op.Stdin = g.IntN(4) == 0
				op.Force = g.IntN(2) == 0 // (with stdin) the client leaves its input open
			}
			if property == "C12" && g.IntN(2) == 0 {
				op = genCreate(g, &cfg, property)
			}
			if property == "C11" && g.IntN(6) == 0 {
				// more capacity changes than the general mix has: a failed set-node has to put
				// back capacities that earlier changes made uneven
				op = cluOp{Kind: "set_node", Node: g.IntN(len(cfg.Nodes)), Delta: true, CapCPU: 1 + g.IntN(2), Bypass: g.IntN(3)}
			}
			if (property == "C13" || property == "C12") && op.Kind == "create" && g.IntN(8) == 0 {
				op.ClientGone = 1 + g.IntN(2)
			}
			if (property == "C13" || property == "C12") && op.Kind == "create" && g.IntN(8) == 0 {
				// machines on which creating a container takes minutes (a large image to fetch):
				// the deployment as a whole then runs longer than any of the timeouts it sets
				op.Secs = 200 + g.IntN(250)
			}
			if (property == "C21" || property == "C01" || property == "C02" || property == "C03") && g.IntN(2) == 0 {
				op = genCreate(g, &cfg, property)
				op.Kind = "capacity"
				if property == "C21" {
					op.Strategy = "DUMMY"
					if g.IntN(4) != 0 {
						op.Req = resReq{} // a request every node satisfies: the answer is the selection
					}
				}
			}
			if property == "C21" && g.IntN(6) == 0 {
				op = cluOp{Kind: "advance", Secs: 20 + g.IntN(60)}
			}
			if property == "C21" && g.IntN(4) == 0 {
				// an operation that walks the list of selected nodes
				op = genCreate(g, &cfg, property)
				op.Kind = "rm_image"
				if g.IntN(2) == 0 {
					// longer include lists with several repeated names
					op.Includes = nil
					for k := 4 + g.IntN(3); k > 0; k-- {
						op.Includes = append(op.Includes, g.IntN(len(cfg.Nodes)))
					}
				}
			}
			if property == "C34" {
				switch g.IntN(12) {
				case 0:
					op = cluOp{Kind: "rpc_pods"}
				case 1:
					op = cluOp{Kind: "rpc_node", Node: g.IntN(len(cfg.Nodes))}
				case 2:
					op = cluOp{Kind: "rpc_status", Slot: g.IntN(64)}
				case 3:
					op = cluOp{Kind: "rpc_send", Slots: []int{g.IntN(64), g.IntN(64)}}
				case 4:
					// removals spanning several workloads (and nodes)
					op = cluOp{Kind: "remove", Slots: []int{g.IntN(64), g.IntN(64), g.IntN(64)}, Force: true}
				case 5:
					op = genCreate(g, &cfg, property)
				case 7:
					op = cluOp{Kind: "rpc_list", App: []string{"app", "web", ""}[g.IntN(3)]}
				case 8:
					op = cluOp{Kind: "list_pod_nodes", Pod: g.IntN(len(cfg.Pods))}
				case 6:
					op = cluOp{Kind: "control", Ctl: []string{"stop", "start", "restart"}[g.IntN(3)], Slots: []int{g.IntN(64), g.IntN(64), g.IntN(64)}}
				}
			}
			op.Task = g.IntN(cfg.Tasks)
			ops = append(ops, mustJSON(op))
		}
		// exactly one fault somewhere (sampled; the thorough tier sweeps every position)
		switch property {
		case "C20", "C21", "C01", "C02", "C03", "C34":
		default:
			if g.IntN(4) != 0 {
				plan.ErrAt = []int{g.IntN(60 * nops)}
			}
		}
		if property == "C21" {
			// heartbeat-driven availability: some nodes have short or no heartbeats
			for i := range cfg.Nodes {
				switch g.IntN(4) {
				case 0:
					cfg.Nodes[i].HBTTL = 0
				case 1:
					cfg.Nodes[i].HBTTL = int64(10 + g.IntN(50))
				}
			}
		}
		if property == "C30" || property == "C12" {
			for i := range cfg.Nodes {
				b := &cfg.Nodes[i].Beh
				b.LogLines = []string{"hello", "world"}[:g.IntN(3)]
				b.ExitCode = int64(g.IntN(3))
				if property == "C30" {
					b.LogsErr = g.IntN(6) == 0
					b.WaitErr = g.IntN(6) == 0
				}
			}
		}
	}
	return &Case{Plan: plan, Cfg: mustJSON(cfg), Ops: ops}
}

// ---- execution ----

func (cluH) Execute(c *Case, res *Result) {
	var cfg cluCfg
	_ = json.Unmarshal(c.Cfg, &cfg)
	plan := c.Plan
	relCrash := -1
	if cfg.Mode == "crash" {
		relCrash = plan.CrashAt
		plan.CrashAt = -1 // armed when the last operation starts
	}
	sim := simrt.New(c.Seed, plan)
	sim.KeepTrace = traceWanted
	w := newCluWorld(sim, res, c.Property, cfg, c.Seed)
	defer w.cleanup()
	// when a task handed to the worker pool (or a new goroutine) starts is a scheduler step
	verifrt.Start = func() { _ = sim.Seam(nil, "yield", "task-start", false) }
	defer func() { verifrt.Start = nil }()
	if c.Property == "C34" {
		// the yield points inserted into calcium's goroutine bodies (scratch copy) become
		// scheduler steps: goroutines of one operation can be stopped between a call that
		// goes through the pool or the store and the statement that follows it
		verifrt.Tick = func() { _ = sim.Seam(nil, "yield", "calcium", false) }
		defer func() { verifrt.Tick = nil }()
	}
	if c.Property == "C30" {
		// C30 quantifies over engine outcomes for logs, wait and exit codes: only those
		// engine calls are failed by injection (plus the scripted Behaviour of each node)
		sim.FaultFilter = func(class, label string) bool {
			return class == "engine" && (strings.HasPrefix(label, "Logs ") || strings.HasPrefix(label, "Wait ") || strings.HasPrefix(label, "Attach "))
		}
	}
	if c.Property == "C13" {
		// C13 quantifies over deployments "with failures at any instance": the failing step
		// is a step of deploying an instance, not the final deletion of the marker itself
		// (no single-attempt deletion can survive its own failure; the wal entry that is
		// kept in that case is C14's business)
		sim.FaultFilter = func(class, label string) bool { return !strings.HasPrefix(label, "Delete /processing/") }
	}
	var ops []cluOp
	for _, raw := range c.Ops {
		var op cluOp
		_ = json.Unmarshal(raw, &op)
		ops = append(ops, op)
	}
	for _, op := range ops {
		if op.Kind == "create" && op.Secs > 0 {
			// a deployment on slow machines fails by running into its own timeout: that is the
			// single failure of this history, nothing else is failed by injection (a second
			// failure could land in the compensation of the first, which the properties exclude)
			sim.FaultFilter = func(class, label string) bool { return false }
			res.Probes["history_with_slow_create_no_injection"]++
			break
		}
	}
	if c.Property == "C32" && cfg.Mode == "conc" {
		sim.FaultFilter = func(class, label string) bool { return false } // fault-free: the interleaving is the subject
	}
	setupDone := make(chan struct{})
	sim.Go(func() {
		ctx := context.Background()
		sim.SetFaultsEnabled(false)
		w.core = w.boot("")
		w.vibranium() // created before the client tasks start (they share it, like a server does)
		for _, p := range cfg.Pods {
			if _, err := w.core.cal.AddPod(ctx, p, ""); err != nil {
				res.Harness = "setup AddPod: " + err.Error()
				close(setupDone)
				return
			}
		}
		for _, n := range cfg.Nodes {
			if err := w.addNode(ctx, n); err != nil {
				res.Harness = "setup AddNode: " + err.Error()
				close(setupDone)
				return
			}
		}
		sim.Settle()
		sim.SetFaultsEnabled(true)
		if c.Property == "C32" && cfg.Mode == "conc" {
			for _, n := range sortedKeys(w.engines) {
				w.engines[n].SetSlow("UpdateResource", 3*time.Second)
			}
		}
		w.setupDone = true
		close(setupDone)
		if cfg.Mode != "conc" {
			for i, op := range ops {
				w.opIndex = i
				w.curOp = fmt.Sprintf("op#%d %s", i, string(c.Ops[i]))
				last := i == len(ops)-1
				if cfg.Mode == "crash" && last {
					w.runCrashOp(ctx, op, relCrash)
					res.OpsRun++
					return
				}
				w.runSeqOp(ctx, op)
				res.OpsRun++
				if res.Harness != "" {
					return
				}
			}
			return
		}
	})
	if cfg.Mode == "conc" {
		for t := 0; t < cfg.Tasks; t++ {
			t := t
			sim.Go(func() {
				<-setupDone
				if res.Harness != "" {
					return
				}
				ctx := context.Background()
				for i, op := range ops {
					if op.Task%cfg.Tasks != t {
						continue
					}
					w.runConcOp(ctx, op, i)
				}
			})
		}
		// the checker task: when everything has returned and background work has run dry
		sim.Go(func() {
			<-setupDone
			if res.Harness != "" {
				return
			}
			doneOps := func() int { w.hmu.Lock(); defer w.hmu.Unlock(); return w.concDone }
			for doneOps() < concOpsCount(ops) {
				sim.Settle()
				if doneOps() < concOpsCount(ops) {
					time.Sleep(time.Second)
				}
			}
			sim.Settle()
			if w.prop == "C32" {
				// re-maps still waiting for a slow engine are background work: let it run dry
				time.Sleep(5 * time.Minute)
				sim.Settle()
			}
			w.curOp = "quiescence after concurrent history"
			w.opIndex = len(ops)
			st := w.checkAll(context.Background(), "quiescence", nil)
			if w.prop == "C32" && st != nil {
				all := map[string]bool{}
				for n := range st.Nodes {
					all[n] = true
				}
				for _, op := range ops {
					switch op.Kind {
					case "set_node", "node_resource":
						w.remapDirty[w.nodeName(op.Node)] = true // capacity may change without a re-map
					case "add_node":
						w.remapDirty[op.NewName] = true
					}
				}
				w.probe("c32_quiescence_after_concurrent_binding_changes")
				w.checkRemap(st, all, 0, "quiescence")
			}
		})
	}
	sim.Run(nil, 4*time.Hour)
	sim.Finish()
	if sim.Stuck {
		res.Stuck = sim.StuckWhy
		if w.prop == "C20" {
			w.viol("C20", "no-progress", "stuck", "operations did not finish: "+sim.StuckWhy)
		}
	}
	res.Stats = sim.Stats
	res.TraceHash = sim.TraceHash()
	res.Trace = sim.Trace
	res.Probes["lock_events"] = w.mon.events
	sim.Stop()
	if w.core != nil {
		w.core.cancel()
	}
}

func concOpsCount(ops []cluOp) int { return len(ops) }

func (w *cluWorld) addNode(ctx context.Context, n cluNode) error {
	p := resourcetypes.RawParams{"cpu": n.Cores, "memory": n.Memory}
	if n.NUMA {
		half := n.Cores / 2
		var a, b []string
		for c := 0; c < n.Cores; c++ {
			if c < half {
				a = append(a, fmt.Sprint(c))
			} else {
				b = append(b, fmt.Sprint(c))
			}
		}
		p["numa-cpu"] = []string{strings.Join(a, ","), strings.Join(b, ",")}
		p["numa-memory"] = []string{fmt.Sprint(n.Memory / 2), fmt.Sprint(n.Memory - n.Memory/2)}
	}
	node, err := w.core.cal.AddNode(ctx, &coretypes.AddNodeOptions{Nodename: n.Name, Endpoint: "sim://" + n.Name, Podname: n.Pod, Labels: n.Labels, Resources: resourcetypes.Resources{"cpumem": p}})
	if err != nil {
		return err
	}
	_ = node
	if n.HBTTL > 0 {
		// the agent's heartbeat is not part of the operation under test
		w.sim.SetFaultsEnabled(false)
		_ = w.core.cal.GetStore().SetNodeStatus(ctx, &coretypes.Node{NodeMeta: coretypes.NodeMeta{Name: n.Name, Podname: n.Pod}}, n.HBTTL)
		w.sim.SetFaultsEnabled(w.setupDone)
	}
	return nil
}

// liveWorkloads returns recorded workload ids in a canonical order.
func (w *cluWorld) liveWorkloads() []string {
	s := w.readState()
	return sortedKeys(s.Workloads)
}

// candidates are the workloads an operation may target. In a concurrent history each
// client task only touches workloads it created itself (the properties quantify over
// concurrent operations on *different* workloads).
func (w *cluWorld) candidates(op cluOp) []string {
	ids := w.liveWorkloads()
	if w.cfg.Mode != "conc" {
		return ids
	}
	own := w.owned[op.Task%w.cfg.Tasks]
	var out []string
	for _, id := range ids {
		if own[id] {
			out = append(out, id)
		}
	}
	return out
}

func (w *cluWorld) own(op cluOp, id string) {
	if w.cfg.Tasks == 0 {
		return
	}
	t := op.Task % w.cfg.Tasks
	w.hmu.Lock()
	if w.owned[t] == nil {
		w.owned[t] = map[string]bool{}
	}
	w.owned[t][id] = true
	w.hmu.Unlock()
}

func (w *cluWorld) pick(op cluOp) string {
	ids := w.candidates(op)
	if len(ids) == 0 {
		return ""
	}
	return ids[op.Slot%len(ids)]
}

func (w *cluWorld) nodeName(i int) string {
	if i < len(w.cfg.Nodes) {
		return w.cfg.Nodes[i].Name
	}
	return fmt.Sprintf("x%d", i-len(w.cfg.Nodes))
}

func (w *cluWorld) podName(i int) string {
	if i < len(w.cfg.Pods) {
		return w.cfg.Pods[i]
	}
	return fmt.Sprintf("q%d", i-len(w.cfg.Pods))
}

func (w *cluWorld) deployOpts(op cluOp) *coretypes.DeployOptions {
	nf := &coretypes.NodeFilter{All: op.All, Labels: op.Labels}
	if op.UsePod || len(op.Includes) == 0 {
		nf.Podname = w.podName(op.Pod)
	}
	for _, i := range op.Includes {
		nf.Includes = append(nf.Includes, w.nodeName(i))
	}
	for _, i := range op.Excludes {
		nf.Excludes = append(nf.Excludes, w.nodeName(i))
	}
	return &coretypes.DeployOptions{
		Name: op.App, Entrypoint: &coretypes.Entrypoint{Name: op.Entry}, Podname: w.podName(op.Pod), NodeFilter: nf,
		Image: "img", Count: op.Count, DeployStrategy: op.Strategy, NodesLimit: op.Limit, Resources: rawReq(op.Req), IgnorePull: true,
		OpenStdin: op.Stdin, IgnoreHook: op.IgnHook,
	}
}

// checkAll runs the quiescent-state oracles.
func (w *cluWorld) checkAll(ctx context.Context, after string, exempt map[string]bool) *cluState {
	w.sim.SetFaultsEnabled(false)
	defer w.sim.SetFaultsEnabled(true)
	s := w.readState()
	w.checkUsage(s, "C10", after)
	w.checkRefs(s, after)
	w.checkDeployStatus(ctx, s, after)
	w.checkEngine(s, "C12", after, exempt)
	// the node resource check must report no differences
	if w.prop == "C10" || w.prop == "C14" || w.prop == "C15" {
		for _, n := range sortedKeys(s.Nodes) {
			nr, err := w.core.cal.NodeResource(ctx, n, false)
			if err != nil {
				continue
			}
			var diffs []string
			for _, d := range nr.Diffs {
				if !strings.Contains(d, "inspect failed") {
					diffs = append(diffs, d)
				}
			}
			if len(diffs) > 0 {
				w.viol("C10", "node-resource-diffs", after, fmt.Sprintf("node %s: resource check reports %v", n, diffs))
			}
		}
		// listing workloads must not fail on a dangling reference
	}
	if _, err := w.core.cal.ListWorkloads(ctx, &coretypes.ListWorkloadsOptions{}); err != nil {
		sig := after
		for _, id := range sortedKeys(s.Workloads) {
			if _, ok := s.Nodes[s.Workloads[id].Nodename]; !ok {
				sig = w.missingNodeCause(s.Workloads[id].Nodename, after)
				break
			}
		}
		w.viol("C22", "list-workloads-fails", sig, fmt.Sprintf("listing workloads fails: %v", err))
	}
	var st []string
	for _, n := range sortedKeys(s.Resource) {
		st = append(st, n+canonRecord(s.Resource[n]))
	}
	st = append(st, fmt.Sprint(len(s.Workloads), len(s.Nodes), len(s.Pods)))
	w.res.StateHash = append(w.res.StateHash, hashStr(strings.Join(st, "|")))
	return s
}

func sameKeys(a, b map[string]*coretypes.Workload) (added, removed []string) {
	for k := range b {
		if _, ok := a[k]; !ok {
			added = append(added, k)
		}
	}
	for k := range a {
		if _, ok := b[k]; !ok {
			removed = append(removed, k)
		}
	}
	sort.Strings(added)
	sort.Strings(removed)
	return
}
