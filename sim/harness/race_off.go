//go:build !race

package harness

const raceBuild = false
