package simetcd

import (
	"context"
	"io"
	"sync"
	"time"

	pb "go.etcd.io/etcd/api/v3/etcdserverpb"
	"go.etcd.io/etcd/api/v3/mvccpb"
	"go.etcd.io/etcd/api/v3/v3rpc/rpctypes"
	clientv3 "go.etcd.io/etcd/client/v3"
	"google.golang.org/grpc"
	"google.golang.org/grpc/metadata"

	"github.com/projecteru2/core/verifrt"

	"verif/sim/simrt"
)

// Handle is what one simulated process uses to talk to the server.
type Handle struct {
	S    *Server
	Inst *simrt.Instance
	// Class is the seam class of this handle's calls ("etcd", "pstore", ...).
	Class string
	// ParkKeepAlive makes keep-alive stream traffic a scheduler step (default true).
	ParkKeepAlive bool
	// FaultKeepAlive makes keep-alive stream sends faultable (default false: faults are
	// kept inside operations; a lost keep-alive is modelled by stalls / pauses instead).
	FaultKeepAlive bool
	Client *clientv3.Client
	cancel context.CancelFunc
}

// NewClient returns a real *clientv3.Client whose KV and Lease run the real client
// code over this server, and whose Watcher is served directly by the model.
func (s *Server) NewClient(inst *simrt.Instance, class ...string) *Handle {
	ctx, cancel := context.WithCancel(context.Background())
	h := &Handle{S: s, Inst: inst, ParkKeepAlive: true, cancel: cancel, Class: s.Name}
	if len(class) > 0 {
		h.Class = class[0]
	}
	c := clientv3.NewCtxClient(ctx)
	c.KV = clientv3.NewKVFromKVClient(&kvClient{h}, c)
	c.Lease = clientv3.NewLeaseFromLeaseClient(&leaseClient{h}, c, 5*time.Second)
	c.Watcher = &watchClient{h: h, ctx: ctx}
	h.Client = c
	return h
}

// Close stops the client's lessor and watchers.
func (h *Handle) Close() {
	_ = h.Client.Lease.Close()
	h.cancel()
}

func (h *Handle) seam(ctx context.Context, label string, faultable bool) error {
	if err := ctx.Err(); err != nil {
		return err
	}
	if faultable && verifrt.IsRollback(ctx) {
		faultable = false // compensating steps are never failed by injection
	}
	if err := h.S.Sim.Seam(h.Inst, h.Class, label, faultable); err != nil {
		return injected(err)
	}
	return ctx.Err()
}

type kvClient struct{ h *Handle }

func short(b []byte) string {
	if len(b) > 80 {
		return string(b[:80])
	}
	return string(b)
}

func (c *kvClient) Range(ctx context.Context, in *pb.RangeRequest, _ ...grpc.CallOption) (*pb.RangeResponse, error) {
	if err := c.h.seam(ctx, "Range "+short(in.Key), true); err != nil {
		return nil, err
	}
	s := c.h.S
	s.mu.Lock()
	defer s.mu.Unlock()
	return s.doRange(in)
}

func (c *kvClient) Put(ctx context.Context, in *pb.PutRequest, _ ...grpc.CallOption) (*pb.PutResponse, error) {
	if err := c.h.seam(ctx, "Put "+short(in.Key), true); err != nil {
		return nil, err
	}
	s := c.h.S
	s.mu.Lock()
	if in.Lease != 0 {
		if _, ok := s.leases[in.Lease]; !ok {
			s.mu.Unlock()
			return nil, rpctypes.ErrGRPCLeaseNotFound
		}
	}
	s.rev++
	resp, err := s.doPut(in, s.rev)
	if err != nil {
		s.rev--
		s.mu.Unlock()
		return nil, err
	}
	resp.Header = s.header()
	s.mu.Unlock()
	s.notify()
	return resp, nil
}

func (c *kvClient) DeleteRange(ctx context.Context, in *pb.DeleteRangeRequest, _ ...grpc.CallOption) (*pb.DeleteRangeResponse, error) {
	if err := c.h.seam(ctx, "Delete "+short(in.Key), true); err != nil {
		return nil, err
	}
	s := c.h.S
	s.mu.Lock()
	var resp *pb.DeleteRangeResponse
	if len(s.keysIn(in.Key, in.RangeEnd)) > 0 {
		s.rev++
		resp = s.doDelete(in, s.rev)
	} else {
		resp = &pb.DeleteRangeResponse{}
	}
	resp.Header = s.header()
	s.mu.Unlock()
	s.notify()
	return resp, nil
}

func firstKey(t *pb.TxnRequest) string {
	for _, c := range t.Compare {
		return short(c.Key)
	}
	for _, ops := range [][]*pb.RequestOp{t.Success, t.Failure} {
		for _, o := range ops {
			switch r := o.Request.(type) {
			case *pb.RequestOp_RequestPut:
				return short(r.RequestPut.Key)
			case *pb.RequestOp_RequestRange:
				return short(r.RequestRange.Key)
			case *pb.RequestOp_RequestDeleteRange:
				return short(r.RequestDeleteRange.Key)
			}
		}
	}
	return ""
}

func (c *kvClient) Txn(ctx context.Context, in *pb.TxnRequest, _ ...grpc.CallOption) (*pb.TxnResponse, error) {
	if err := c.h.seam(ctx, "Txn "+firstKey(in), true); err != nil {
		return nil, err
	}
	s := c.h.S
	s.mu.Lock()
	s.Txns++
	if err := countOps(in); err != nil {
		s.mu.Unlock()
		return nil, err
	}
	if err := checkDup(in.Success); err != nil {
		s.mu.Unlock()
		return nil, err
	}
	if err := checkDup(in.Failure); err != nil {
		s.mu.Unlock()
		return nil, err
	}
	if err := s.validateTxn(in); err != nil {
		s.mu.Unlock()
		return nil, err
	}
	rev := s.rev
	w := hasWrite(s, in)
	if w {
		rev = s.rev + 1
	}
	resp, err := s.applyTxn(in, rev)
	if err != nil {
		s.mu.Unlock()
		return nil, err
	}
	if w {
		s.rev = rev
	}
	resp.Header = s.header()
	s.mu.Unlock()
	s.notify()
	return resp, nil
}

func (c *kvClient) Compact(ctx context.Context, in *pb.CompactionRequest, _ ...grpc.CallOption) (*pb.CompactionResponse, error) {
	return &pb.CompactionResponse{Header: c.h.S.header()}, nil
}

// ---- leases ----

type leaseClient struct{ h *Handle }

func (c *leaseClient) LeaseGrant(ctx context.Context, in *pb.LeaseGrantRequest, _ ...grpc.CallOption) (*pb.LeaseGrantResponse, error) {
	if err := c.h.seam(ctx, "LeaseGrant", true); err != nil {
		return nil, err
	}
	s := c.h.S
	s.mu.Lock()
	defer s.mu.Unlock()
	ttl := in.TTL
	if ttl < 1 {
		ttl = 1
	}
	l := s.grant(ttl)
	if s.LeaseCreator == nil {
		s.LeaseCreator = map[int64]string{}
	}
	s.LeaseCreator[l.id] = c.h.Class
	return &pb.LeaseGrantResponse{Header: s.header(), ID: l.id, TTL: l.ttl}, nil
}

func (c *leaseClient) LeaseRevoke(ctx context.Context, in *pb.LeaseRevokeRequest, _ ...grpc.CallOption) (*pb.LeaseRevokeResponse, error) {
	if err := c.h.seam(ctx, "LeaseRevoke", true); err != nil {
		return nil, err
	}
	s := c.h.S
	s.mu.Lock()
	l, ok := s.leases[in.ID]
	if !ok {
		s.mu.Unlock()
		return nil, rpctypes.ErrGRPCLeaseNotFound
	}
	s.revokeLocked(l)
	h := s.header()
	s.mu.Unlock()
	s.notify()
	return &pb.LeaseRevokeResponse{Header: h}, nil
}

func (c *leaseClient) LeaseTimeToLive(ctx context.Context, in *pb.LeaseTimeToLiveRequest, _ ...grpc.CallOption) (*pb.LeaseTimeToLiveResponse, error) {
	if err := c.h.seam(ctx, "LeaseTimeToLive", true); err != nil {
		return nil, err
	}
	s := c.h.S
	s.mu.Lock()
	defer s.mu.Unlock()
	l, ok := s.leases[in.ID]
	if !ok {
		return &pb.LeaseTimeToLiveResponse{Header: s.header(), ID: in.ID, TTL: -1}, nil
	}
	rem := int64(time.Until(l.expiry) / time.Second)
	return &pb.LeaseTimeToLiveResponse{Header: s.header(), ID: in.ID, TTL: rem, GrantedTTL: l.ttl}, nil
}

func (c *leaseClient) LeaseLeases(ctx context.Context, in *pb.LeaseLeasesRequest, _ ...grpc.CallOption) (*pb.LeaseLeasesResponse, error) {
	s := c.h.S
	resp := &pb.LeaseLeasesResponse{Header: s.header()}
	for _, id := range s.Leases() {
		resp.Leases = append(resp.Leases, &pb.LeaseStatus{ID: id})
	}
	return resp, nil
}

type kaStream struct {
	h    *Handle
	ctx  context.Context
	mu   sync.Mutex
	q    []*pb.LeaseKeepAliveResponse
	wake chan struct{}
}

func (c *leaseClient) LeaseKeepAlive(ctx context.Context, _ ...grpc.CallOption) (pb.Lease_LeaseKeepAliveClient, error) {
	if err := ctx.Err(); err != nil {
		return nil, err
	}
	return &kaStream{h: c.h, ctx: ctx, wake: make(chan struct{}, 1)}, nil
}

func (k *kaStream) Send(r *pb.LeaseKeepAliveRequest) error {
	if k.h.ParkKeepAlive {
		if err := k.h.seam(k.ctx, "LeaseKeepAlive", k.h.FaultKeepAlive); err != nil {
			return err
		}
	} else if err := k.ctx.Err(); err != nil {
		return err
	}
	s := k.h.S
	s.mu.Lock()
	resp := &pb.LeaseKeepAliveResponse{Header: s.header(), ID: r.ID}
	if l, ok := s.leases[r.ID]; ok {
		s.armLocked(l)
		resp.TTL = l.ttl
	}
	s.mu.Unlock()
	k.mu.Lock()
	k.q = append(k.q, resp)
	k.mu.Unlock()
	select {
	case k.wake <- struct{}{}:
	default:
	}
	return nil
}

func (k *kaStream) Recv() (*pb.LeaseKeepAliveResponse, error) {
	for {
		k.mu.Lock()
		if len(k.q) > 0 {
			r := k.q[0]
			k.q = k.q[1:]
			k.mu.Unlock()
			return r, nil
		}
		k.mu.Unlock()
		select {
		case <-k.wake:
		case <-k.ctx.Done():
			return nil, k.ctx.Err()
		}
	}
}

func (k *kaStream) Header() (metadata.MD, error) { return nil, nil }
func (k *kaStream) Trailer() metadata.MD         { return nil }
func (k *kaStream) CloseSend() error             { return nil }
func (k *kaStream) Context() context.Context     { return k.ctx }
func (k *kaStream) SendMsg(m interface{}) error  { return k.Send(m.(*pb.LeaseKeepAliveRequest)) }
func (k *kaStream) RecvMsg(m interface{}) error  { return io.EOF }

// ---- watches ----

type watcher struct {
	h      *Handle
	key    []byte
	end    []byte
	next   int64 // next revision to deliver
	out    chan clientv3.WatchResponse
	ctx    context.Context
	wake   chan struct{}
	active bool
}

type watchClient struct {
	h   *Handle
	ctx context.Context
}

func (w *watchClient) RequestProgress(ctx context.Context) error { return nil }
func (w *watchClient) Close() error                              { return nil }

// Watch blocks until the server has created the watcher, as the real client does (it
// returns the channel only when the "created" response has arrived): the watch starts
// at the server's revision at the moment the (parked) create request is released.
func (w *watchClient) Watch(ctx context.Context, key string, opts ...clientv3.OpOption) clientv3.WatchChan {
	op := clientv3.OpGet(key, opts...)
	wa := &watcher{h: w.h, key: op.KeyBytes(), end: op.RangeBytes(), next: op.Rev(), out: make(chan clientv3.WatchResponse), ctx: ctx, wake: make(chan struct{}, 1)}
	s := w.h.S
	if err := s.Sim.Seam(w.h.Inst, w.h.Class, "WatchCreate "+short(wa.key), false); err != nil || ctx.Err() != nil || w.ctx.Err() != nil {
		close(wa.out)
		return wa.out
	}
	s.mu.Lock()
	if wa.next == 0 {
		wa.next = s.rev + 1
	}
	s.watchers[wa] = struct{}{}
	s.mu.Unlock()
	go wa.run(w.ctx)
	return wa.out
}

func (s *Server) notify() {
	s.mu.Lock()
	for w := range s.watchers {
		select {
		case w.wake <- struct{}{}:
		default:
		}
	}
	s.mu.Unlock()
}

func (wa *watcher) run(clientCtx context.Context) {
	defer close(wa.out)
	s := wa.h.S
	defer func() {
		s.mu.Lock()
		delete(s.watchers, wa)
		s.mu.Unlock()
	}()
	for {
		// collect the next batch (all events of one revision)
		s.mu.Lock()
		var batch []*clientv3.Event
		var brev int64
		for _, ev := range s.history {
			if ev.Rev < wa.next || !inRange(ev.Key, wa.key, wa.end) {
				continue
			}
			if brev == 0 {
				brev = ev.Rev
			}
			if ev.Rev != brev {
				break
			}
			t := mvccpb.PUT
			if ev.Del {
				t = mvccpb.DELETE
			}
			batch = append(batch, &clientv3.Event{Type: t, Kv: ev.Kv})
		}
		hdr := *s.header()
		s.mu.Unlock()
		if len(batch) == 0 {
			select {
			case <-wa.wake:
				continue
			case <-wa.ctx.Done():
				return
			case <-clientCtx.Done():
				return
			}
		}
		if err := s.Sim.Seam(wa.h.Inst, wa.h.Class, "WatchDeliver "+short(wa.key), false); err != nil {
			return
		}
		wa.next = brev + 1
		hdr.Revision = brev
		select {
		case wa.out <- clientv3.WatchResponse{Header: hdr, Events: batch}:
		case <-wa.ctx.Done():
			return
		case <-clientCtx.Done():
			return
		}
	}
}
