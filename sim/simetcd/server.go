// Package simetcd is an in-memory model of an etcd v3 server (MVCC revisions,
// leases on the simulated clock, transactions, watches) served to the *real*
// clientv3 KV and Lease implementations through their protobuf client interfaces,
// so core's store, etcd's concurrency package and the client lessor all run real code.
package simetcd

import (
	"bytes"
	"context"
	"fmt"
	"sort"
	"sync"
	"time"

	"go.etcd.io/etcd/api/v3/mvccpb"
	pb "go.etcd.io/etcd/api/v3/etcdserverpb"
	"go.etcd.io/etcd/api/v3/v3rpc/rpctypes"
	"google.golang.org/grpc/codes"
	"google.golang.org/grpc/status"

	"verif/sim/simrt"
)

type kv struct {
	val       []byte
	create    int64
	mod       int64
	version   int64
	lease     int64
}

type lease struct {
	id      int64
	ttl     int64
	expiry  time.Time
	keys    map[string]struct{}
	timer   *time.Timer
	granted time.Time
}

// Event is one entry of the revision history.
type Event struct {
	Rev  int64
	Del  bool
	Key  string
	Kv   *mvccpb.KeyValue
}

// Server is the simulated etcd cluster (linearizable, single copy).
type Server struct {
	mu        sync.Mutex
	rev       int64
	kvs       map[string]*kv
	leases    map[int64]*lease
	nextLease int64
	history   []Event
	watchers  map[*watcher]struct{}
	Sim       *simrt.Sim
	Name      string // seam class, e.g. "etcd" or "pstore"

	// statistics
	// LeaseCreator records which client handle (seam class) granted each lease.
	LeaseCreator map[int64]string
	// LeaseEnd records when each lease ended (revoked or expired), for timing oracles.
	LeaseEnd     map[int64]time.Time
	LeaseExpired int
	LeaseRevoked int
	Txns         int
	// WriteLog records who mutated which key (for ownership oracles).
	OnMutate func(key string, del bool, lease int64)
}

// NewServer creates an empty server; must be called inside the bubble.
func NewServer(sim *simrt.Sim, name string) *Server {
	return &Server{rev: 1, kvs: map[string]*kv{}, leases: map[int64]*lease{}, nextLease: 0x1000, watchers: map[*watcher]struct{}{}, Sim: sim, Name: name}
}

func (s *Server) header() *pb.ResponseHeader {
	return &pb.ResponseHeader{ClusterId: 1, MemberId: 1, Revision: s.rev, RaftTerm: 1}
}

func injected(err error) error {
	return status.Error(codes.Unknown, err.Error())
}

func (s *Server) toKV(k string, v *kv) *mvccpb.KeyValue {
	return &mvccpb.KeyValue{Key: []byte(k), Value: append([]byte(nil), v.val...), CreateRevision: v.create, ModRevision: v.mod, Version: v.version, Lease: v.lease}
}

func inRange(k string, key, end []byte) bool {
	if len(end) == 0 {
		return k == string(key)
	}
	if bytes.Compare([]byte(k), key) < 0 {
		return false
	}
	if len(end) == 1 && end[0] == 0 {
		return true
	}
	return bytes.Compare([]byte(k), end) < 0
}

func (s *Server) keysIn(key, end []byte) []string {
	var ks []string
	if len(end) == 0 {
		if _, ok := s.kvs[string(key)]; ok {
			ks = append(ks, string(key))
		}
		return ks
	}
	for k := range s.kvs {
		if inRange(k, key, end) {
			ks = append(ks, k)
		}
	}
	sort.Strings(ks)
	return ks
}

// ---- primitive operations (mu held) ----

func (s *Server) doRange(r *pb.RangeRequest) (*pb.RangeResponse, error) {
	if r.Revision != 0 && r.Revision != s.rev {
		if r.Revision > s.rev {
			return nil, rpctypes.ErrGRPCFutureRev
		}
		panic(fmt.Sprintf("simetcd: historical read at revision %d (current %d) is not modelled", r.Revision, s.rev))
	}
	ks := s.keysIn(r.Key, r.RangeEnd)
	var out []*mvccpb.KeyValue
	for _, k := range ks {
		v := s.kvs[k]
		if r.MinModRevision != 0 && v.mod < r.MinModRevision {
			continue
		}
		if r.MaxModRevision != 0 && v.mod > r.MaxModRevision {
			continue
		}
		if r.MinCreateRevision != 0 && v.create < r.MinCreateRevision {
			continue
		}
		if r.MaxCreateRevision != 0 && v.create > r.MaxCreateRevision {
			continue
		}
		out = append(out, s.toKV(k, v))
	}
	if r.SortOrder != pb.RangeRequest_NONE {
		lessf := func(a, b *mvccpb.KeyValue) bool {
			switch r.SortTarget {
			case pb.RangeRequest_KEY:
				return bytes.Compare(a.Key, b.Key) < 0
			case pb.RangeRequest_VERSION:
				return a.Version < b.Version
			case pb.RangeRequest_CREATE:
				return a.CreateRevision < b.CreateRevision
			case pb.RangeRequest_MOD:
				return a.ModRevision < b.ModRevision
			case pb.RangeRequest_VALUE:
				return bytes.Compare(a.Value, b.Value) < 0
			}
			return false
		}
		sort.SliceStable(out, func(i, j int) bool {
			if r.SortOrder == pb.RangeRequest_DESCEND {
				return lessf(out[j], out[i])
			}
			return lessf(out[i], out[j])
		})
	}
	resp := &pb.RangeResponse{Header: s.header(), Count: int64(len(out))}
	if r.Limit > 0 && int64(len(out)) > r.Limit {
		out = out[:r.Limit]
		resp.More = true
	}
	if r.CountOnly {
		return resp, nil
	}
	if r.KeysOnly {
		for _, x := range out {
			x.Value = nil
		}
	}
	resp.Kvs = out
	return resp, nil
}

func (s *Server) emit(ev Event) {
	s.history = append(s.history, ev)
}

func (s *Server) detach(k string, v *kv) {
	if v.lease != 0 {
		if l, ok := s.leases[v.lease]; ok {
			delete(l.keys, k)
		}
	}
}

// put at revision rev (already allocated by the caller).
func (s *Server) doPut(r *pb.PutRequest, rev int64) (*pb.PutResponse, error) {
	k := string(r.Key)
	old, exists := s.kvs[k]
	leaseID := r.Lease
	val := r.Value
	if r.IgnoreValue || r.IgnoreLease {
		if !exists {
			return nil, rpctypes.ErrGRPCKeyNotFound
		}
		if r.IgnoreValue {
			val = old.val
		}
		if r.IgnoreLease {
			leaseID = old.lease
		}
	}
	if leaseID != 0 {
		if _, ok := s.leases[leaseID]; !ok {
			return nil, rpctypes.ErrGRPCLeaseNotFound
		}
	}
	resp := &pb.PutResponse{}
	n := &kv{val: append([]byte(nil), val...), mod: rev, lease: leaseID}
	if exists {
		if r.PrevKv {
			resp.PrevKv = s.toKV(k, old)
		}
		n.create = old.create
		n.version = old.version + 1
		s.detach(k, old)
	} else {
		n.create = rev
		n.version = 1
	}
	s.kvs[k] = n
	if leaseID != 0 {
		s.leases[leaseID].keys[k] = struct{}{}
	}
	s.emit(Event{Rev: rev, Key: k, Kv: s.toKV(k, n)})
	if s.OnMutate != nil {
		s.OnMutate(k, false, leaseID)
	}
	return resp, nil
}

func (s *Server) doDelete(r *pb.DeleteRangeRequest, rev int64) *pb.DeleteRangeResponse {
	ks := s.keysIn(r.Key, r.RangeEnd)
	resp := &pb.DeleteRangeResponse{Deleted: int64(len(ks))}
	for _, k := range ks {
		v := s.kvs[k]
		if r.PrevKv {
			resp.PrevKvs = append(resp.PrevKvs, s.toKV(k, v))
		}
		s.detach(k, v)
		delete(s.kvs, k)
		s.emit(Event{Rev: rev, Del: true, Key: k, Kv: &mvccpb.KeyValue{Key: []byte(k), ModRevision: rev}})
		if s.OnMutate != nil {
			s.OnMutate(k, true, 0)
		}
	}
	return resp
}

func (s *Server) evalCmp(c *pb.Compare) bool {
	if len(c.RangeEnd) != 0 {
		panic("simetcd: range compares are not modelled")
	}
	v, ok := s.kvs[string(c.Key)]
	var cmp int
	switch c.Target {
	case pb.Compare_VALUE:
		if !ok {
			return false
		}
		tv, _ := c.TargetUnion.(*pb.Compare_Value)
		cmp = bytes.Compare(v.val, tv.Value)
	case pb.Compare_VERSION:
		var x int64
		if ok {
			x = v.version
		}
		cmp = cmp64(x, c.GetVersion())
	case pb.Compare_CREATE:
		var x int64
		if ok {
			x = v.create
		}
		cmp = cmp64(x, c.GetCreateRevision())
	case pb.Compare_MOD:
		var x int64
		if ok {
			x = v.mod
		}
		cmp = cmp64(x, c.GetModRevision())
	case pb.Compare_LEASE:
		var x int64
		if ok {
			x = v.lease
		}
		cmp = cmp64(x, c.GetLease())
	}
	switch c.Result {
	case pb.Compare_EQUAL:
		return cmp == 0
	case pb.Compare_NOT_EQUAL:
		return cmp != 0
	case pb.Compare_GREATER:
		return cmp > 0
	case pb.Compare_LESS:
		return cmp < 0
	}
	return false
}

func cmp64(a, b int64) int {
	switch {
	case a < b:
		return -1
	case a > b:
		return 1
	}
	return 0
}

// MaxTxnOps mirrors etcd's default --max-txn-ops.
const MaxTxnOps = 128

func countOps(t *pb.TxnRequest) error {
	if len(t.Compare) > MaxTxnOps || len(t.Success) > MaxTxnOps || len(t.Failure) > MaxTxnOps {
		return rpctypes.ErrGRPCTooManyOps
	}
	for _, ops := range [][]*pb.RequestOp{t.Success, t.Failure} {
		for _, o := range ops {
			if sub := o.GetRequestTxn(); sub != nil {
				if err := countOps(sub); err != nil {
					return err
				}
			}
		}
	}
	return nil
}

// writes collects the keys put and ranges deleted by every branch (etcd rejects a
// txn that may modify the same key twice, whichever branch is taken).
func collectPuts(ops []*pb.RequestOp, puts map[string]int, dels *[][2][]byte) {
	for _, o := range ops {
		switch r := o.Request.(type) {
		case *pb.RequestOp_RequestPut:
			puts[string(r.RequestPut.Key)]++
		case *pb.RequestOp_RequestDeleteRange:
			*dels = append(*dels, [2][]byte{r.RequestDeleteRange.Key, r.RequestDeleteRange.RangeEnd})
		case *pb.RequestOp_RequestTxn:
			// nested: each branch checked separately, merged conservatively like etcd's checkIntervals
			collectPuts(r.RequestTxn.Success, puts, dels)
			collectPuts(r.RequestTxn.Failure, puts, dels)
		}
	}
}

func checkDup(ops []*pb.RequestOp) error {
	// etcd: within one branch (including nested txns of that branch), a key may be
	// put at most once and may not be both put and deleted. Nested branches Then/Else
	// are alternatives, so duplicates across the two alternatives of one nested txn
	// are allowed; we check each path.
	var walk func(ops []*pb.RequestOp, puts map[string]bool, dels [][2][]byte) error
	walk = func(ops []*pb.RequestOp, puts map[string]bool, dels [][2][]byte) error {
		var nested []*pb.TxnRequest
		for _, o := range ops {
			switch r := o.Request.(type) {
			case *pb.RequestOp_RequestPut:
				k := string(r.RequestPut.Key)
				if puts[k] {
					return rpctypes.ErrGRPCDuplicateKey
				}
				for _, d := range dels {
					if inRange(k, d[0], d[1]) {
						return rpctypes.ErrGRPCDuplicateKey
					}
				}
				puts[k] = true
			case *pb.RequestOp_RequestDeleteRange:
				for k := range puts {
					if inRange(k, r.RequestDeleteRange.Key, r.RequestDeleteRange.RangeEnd) {
						return rpctypes.ErrGRPCDuplicateKey
					}
				}
				dels = append(dels, [2][]byte{r.RequestDeleteRange.Key, r.RequestDeleteRange.RangeEnd})
			case *pb.RequestOp_RequestTxn:
				nested = append(nested, r.RequestTxn)
			}
		}
		for _, n := range nested {
			for _, br := range [][]*pb.RequestOp{n.Success, n.Failure} {
				p2 := map[string]bool{}
				for k := range puts {
					p2[k] = true
				}
				if err := walk(br, p2, append([][2][]byte(nil), dels...)); err != nil {
					return err
				}
			}
		}
		return nil
	}
	return walk(ops, map[string]bool{}, nil)
}

func hasWrite(s *Server, t *pb.TxnRequest) bool {
	ok := true
	for _, c := range t.Compare {
		if !s.evalCmp(c) {
			ok = false
			break
		}
	}
	ops := t.Success
	if !ok {
		ops = t.Failure
	}
	for _, o := range ops {
		switch r := o.Request.(type) {
		case *pb.RequestOp_RequestPut:
			return true
		case *pb.RequestOp_RequestDeleteRange:
			if len(s.keysIn(r.RequestDeleteRange.Key, r.RequestDeleteRange.RangeEnd)) > 0 {
				return true
			}
		case *pb.RequestOp_RequestTxn:
			if hasWrite(s, r.RequestTxn) {
				return true
			}
		}
	}
	return false
}

func (s *Server) applyTxn(t *pb.TxnRequest, rev int64) (*pb.TxnResponse, error) {
	ok := true
	for _, c := range t.Compare {
		if !s.evalCmp(c) {
			ok = false
			break
		}
	}
	ops := t.Success
	if !ok {
		ops = t.Failure
	}
	resp := &pb.TxnResponse{Succeeded: ok}
	for _, o := range ops {
		switch r := o.Request.(type) {
		case *pb.RequestOp_RequestRange:
			rr, err := s.doRange(r.RequestRange)
			if err != nil {
				return nil, err
			}
			rr.Header = nil
			resp.Responses = append(resp.Responses, &pb.ResponseOp{Response: &pb.ResponseOp_ResponseRange{ResponseRange: rr}})
		case *pb.RequestOp_RequestPut:
			pr, err := s.doPut(r.RequestPut, rev)
			if err != nil {
				return nil, err
			}
			resp.Responses = append(resp.Responses, &pb.ResponseOp{Response: &pb.ResponseOp_ResponsePut{ResponsePut: pr}})
		case *pb.RequestOp_RequestDeleteRange:
			dr := s.doDelete(r.RequestDeleteRange, rev)
			resp.Responses = append(resp.Responses, &pb.ResponseOp{Response: &pb.ResponseOp_ResponseDeleteRange{ResponseDeleteRange: dr}})
		case *pb.RequestOp_RequestTxn:
			tr, err := s.applyTxn(r.RequestTxn, rev)
			if err != nil {
				return nil, err
			}
			resp.Responses = append(resp.Responses, &pb.ResponseOp{Response: &pb.ResponseOp_ResponseTxn{ResponseTxn: tr}})
		}
	}
	return resp, nil
}

// validatePuts checks leases of every put that the txn will execute before anything is applied (etcd applies a txn atomically).
func (s *Server) validateTxn(t *pb.TxnRequest) error {
	ok := true
	for _, c := range t.Compare {
		if !s.evalCmp(c) {
			ok = false
			break
		}
	}
	ops := t.Success
	if !ok {
		ops = t.Failure
	}
	for _, o := range ops {
		switch r := o.Request.(type) {
		case *pb.RequestOp_RequestPut:
			p := r.RequestPut
			if p.Lease != 0 {
				if _, ok := s.leases[p.Lease]; !ok {
					return rpctypes.ErrGRPCLeaseNotFound
				}
			}
			if p.IgnoreLease || p.IgnoreValue {
				if _, ok := s.kvs[string(p.Key)]; !ok {
					return rpctypes.ErrGRPCKeyNotFound
				}
			}
		case *pb.RequestOp_RequestTxn:
			if err := s.validateTxn(r.RequestTxn); err != nil {
				return err
			}
		}
	}
	return nil
}

// ---- lease handling ----

func (s *Server) grant(ttl int64) *lease {
	s.nextLease++
	l := &lease{id: s.nextLease, ttl: ttl, keys: map[string]struct{}{}, granted: time.Now()}
	s.leases[l.id] = l
	s.armLocked(l)
	return l
}

func (s *Server) armLocked(l *lease) {
	l.expiry = time.Now().Add(time.Duration(l.ttl) * time.Second)
	if l.timer != nil {
		l.timer.Stop()
	}
	id := l.id
	l.timer = time.AfterFunc(time.Duration(l.ttl)*time.Second, func() { s.expire(id) })
}

func (s *Server) expire(id int64) {
	s.mu.Lock()
	l, ok := s.leases[id]
	if !ok || time.Now().Before(l.expiry) {
		s.mu.Unlock()
		return
	}
	s.LeaseExpired++
	s.revokeLocked(l)
	s.mu.Unlock()
	s.notify()
}

func (s *Server) revokeLocked(l *lease) {
	if l.timer != nil {
		l.timer.Stop()
	}
	delete(s.leases, l.id)
	if s.LeaseEnd == nil {
		s.LeaseEnd = map[int64]time.Time{}
	}
	s.LeaseEnd[l.id] = time.Now()
	if len(l.keys) == 0 {
		return
	}
	ks := make([]string, 0, len(l.keys))
	for k := range l.keys {
		ks = append(ks, k)
	}
	sort.Strings(ks)
	s.rev++
	for _, k := range ks {
		delete(s.kvs, k)
		s.emit(Event{Rev: s.rev, Del: true, Key: k, Kv: &mvccpb.KeyValue{Key: []byte(k), ModRevision: s.rev}})
		if s.OnMutate != nil {
			s.OnMutate(k, true, 0)
		}
	}
}

// RevokeLease revokes a lease server-side (fault injection: session loss).
func (s *Server) RevokeLease(id int64) bool {
	s.mu.Lock()
	l, ok := s.leases[id]
	if ok {
		s.LeaseRevoked++
		s.revokeLocked(l)
	}
	s.mu.Unlock()
	s.notify()
	return ok
}

// ---- direct state access for oracles (no seam, no fault) ----

// Snapshot returns a copy of all keys (value, lease) under a prefix.
func (s *Server) Snapshot(prefix string) map[string]string {
	s.mu.Lock()
	defer s.mu.Unlock()
	out := map[string]string{}
	for k, v := range s.kvs {
		if len(prefix) == 0 || (len(k) >= len(prefix) && k[:len(prefix)] == prefix) {
			out[k] = string(v.val)
		}
	}
	return out
}

// LeaseOf returns the lease id attached to a key (0 if none or missing).
func (s *Server) LeaseOf(key string) int64 {
	s.mu.Lock()
	defer s.mu.Unlock()
	if v, ok := s.kvs[key]; ok {
		return v.lease
	}
	return 0
}

// Leases lists live lease ids in ascending order.
func (s *Server) Leases() []int64 {
	s.mu.Lock()
	defer s.mu.Unlock()
	var ids []int64
	for id := range s.leases {
		ids = append(ids, id)
	}
	sort.Slice(ids, func(i, j int) bool { return ids[i] < ids[j] })
	return ids
}

// PutDirect writes a key without a seam (test setup / corruption faults).
func (s *Server) PutDirect(key, val string) {
	s.mu.Lock()
	s.rev++
	_, _ = s.doPut(&pb.PutRequest{Key: []byte(key), Value: []byte(val)}, s.rev)
	s.mu.Unlock()
	s.notify()
}

// DeleteDirect deletes a key without a seam.
func (s *Server) DeleteDirect(key string) {
	s.mu.Lock()
	if _, ok := s.kvs[key]; ok {
		s.rev++
		s.doDelete(&pb.DeleteRangeRequest{Key: []byte(key)}, s.rev)
	}
	s.mu.Unlock()
	s.notify()
}

// Rev returns the current revision.
func (s *Server) Rev() int64 {
	s.mu.Lock()
	defer s.mu.Unlock()
	return s.rev
}

var _ = context.Background

// FirstCreated returns the key under prefix with the smallest create revision and its lease.
func (s *Server) FirstCreated(prefix string) (string, int64) {
	s.mu.Lock()
	defer s.mu.Unlock()
	best, lease, rev := "", int64(0), int64(0)
	for k, v := range s.kvs {
		if len(k) >= len(prefix) && k[:len(prefix)] == prefix && (best == "" || v.create < rev) {
			best, lease, rev = k, v.lease, v.create
		}
	}
	return best, lease
}

// LeaseEndOf returns when a lease ended (zero time if it is still live or unknown).
func (s *Server) LeaseEndOf(id int64) time.Time {
	s.mu.Lock()
	defer s.mu.Unlock()
	return s.LeaseEnd[id]
}
