#!/bin/bash
# Runs every registered quick check once against /repo and leaves fresh evidence files.
cd /verif
fail=0
for p in $(python3 -c "import json;print(' '.join(c['property_id'] for c in json.load(open('MANIFEST.json'))['checks']))"); do
  out=$(python3 bin/check.py $p --tier ${1:-quick} 2>&1); rc=$?
  echo "$out" | tail -2 | cut -c1-260
  if [ $rc -ne 0 ]; then echo "  ^^^ exit $rc"; fail=1; echo "$out" | tail -15 | cut -c1-400; fi
done
exit $fail
