"""Property table: which harness decides which property, budgets per tier, evidence wording."""

RES_ASSUME = [
    "simetcd (in-memory MVCC etcd model behind the protobuf client interfaces) stands in for the plugin's etcd",
    "the real cpumem plugin is wrapped at the plugin interface so that panics / step-budget overruns become findings instead of killing the process",
    "map iteration order is decided by the simulator (source rewrite of a scratch copy); any order is a legal Go execution",
]

COMPONENTS = {
    "res": {
        "real": ["resource/cobalt", "resource/plugins/cpumem (+schedule, types)", "store/etcdv3/meta (ETCD)", "utils (PCR/Txn)", "etcd clientv3 KV + lessor"],
        "stub": ["etcd server (simetcd)"],
    },
}


def res(level_rule, extra_probes=(), **kw):
    d = {
        "harness": "res",
        "level": "exploration",
        "quick": {"seconds": 25, "runs": 24000},
        "thorough": {"seconds": 600, "runs": 4000000},
        "rule": level_rule,
        "assumptions": RES_ASSUME,
        "expect_probes": ["alloc_ok", "realloc_ok", "numa_plan_used", "fragment_core_used"] + list(extra_probes),
    }
    d.update(kw)
    return d


_R = ("one evaluation = one seeded history of 4-30 resource-manager operations (alloc / rollback / release / realloc / "
      "rollback-realloc / set-capacity / remap / capacity probe / corrupt+fix) on 1-2 seeded nodes (share base 10/100/1000, "
      "max share -1..3, oversold and half cores, optional NUMA split) with 0-2 injected store errors; "
      "non-trivial = at least one allocation or re-allocation was committed; distinct = distinct hash of the full seam trace "
      "(task, store call, fault decision at every step)")

PROPS = {
    "C04": res(_R, extra_probes=["bound_instance"]),
    "C05": res(_R, extra_probes=["bound_instance"]),
    "C06": res(_R, extra_probes=["direct_plugin_calls"]),
    "C07": res(_R, extra_probes=["capacity_query", "capacity_unlimited"]),
    "C08": res(_R, extra_probes=["rollback_alloc_ok", "rollback_realloc_ok", "release_ok", "alloc_injected_failure"]),
    "C15": res(_R, extra_probes=["c15_corrupted", "c15_fix_reported_diffs"]),
    "C32": res(_R, extra_probes=["remap_unbound_workload", "remap_no_free_core"]),
    "C33": res(_R, extra_probes=["c33_nochange_realloc"]),
}

_MON = ("Invariant checked inside seeded simulated histories of the real resource manager + real cpumem plugin over a simulated "
        "plugin store (with injected store errors and simulator-chosen map iteration order). The property itself has no schedule or "
        "fault in its statement; the simulator supplies the population of node states and requests reached through real API histories. "
        "A clean batch is evidence over the explored runs, not proof.")
_NOTE_RES = ("Trusted: the simetcd model of the plugin's etcd (KV/Txn/lease semantics), the reference oracle in sim/harness/res.go, "
             "the Go runtime's determinism at GOMAXPROCS=1 (policed by per-run trace-hash re-runs).")

MANIFEST_TEXT = {
    "C04": {"text": _MON + " Oracle: the instances of every accepted Alloc/Realloc fit jointly into the pre-state's free cores, NUMA memory and total memory (valid pre-states only).", "note": _NOTE_RES},
    "C05": {"text": _MON + " Oracle: pieces of every bound instance = round(cpu*shareBase), at most one fractional core, recorded amount agrees.", "note": _NOTE_RES},
    "C06": {"text": _MON + " Liveness is decided by a deterministic step budget: every loop of the plugin's planner is instrumented (scratch copy only) and a call that exceeds 1e6 iterations, or panics, is a violation with a replayable input.", "note": _NOTE_RES + " Loop ticks are inserted by tools/maporder into the scratch copy, not into /repo."},
    "C07": {"text": _MON + " Oracle: for the reported capacity c, Alloc(c) is accepted and Alloc(c+1) refused on the same state; memory-only capacity drops by k after allocating k.", "note": _NOTE_RES},
    "C08": {"text": "History oracle against a reference model: after every operation (and every injected store failure) the plugin's node record equals the sum of the model's live workloads; failed operations and rollbacks restore the record exactly.", "note": _NOTE_RES},
    "C15": {"text": _MON + " Drift is injected by overwriting the plugin record in the simulated store; after repair the check reports no differences and the record equals the model sum.", "note": _NOTE_RES},
    "C32": {"text": _MON + " Oracle: Remap returns, for exactly the unbound workloads, the cores with a full free share (all cores if none).", "note": _NOTE_RES},
    "C33": {"text": _MON + " Oracle: a keep-binding realloc with zero CPU delta keeps the core set and NUMA node whenever staying is feasible (memory fits where the workload is).", "note": _NOTE_RES},
}

NOT_APPLICABLE = [
    {"property_id": "C31", "reason": "pure translation inside engine/docker, which every simulation replaces by the simulated engine; no schedule, clock, fault or history can influence it (DESIGN.md section 6)"},
    {"property_id": "C35", "reason": "credential matching is a pure function of two string pairs; nothing for a scheduler or fault injector to vary (DESIGN.md section 6)"},
]
