"""Property table: which harness decides which property, budgets per tier, evidence wording."""

RES_ASSUME = [
    "simetcd (in-memory MVCC etcd model behind the protobuf client interfaces) stands in for the plugin's etcd",
    "the real cpumem plugin is wrapped at the plugin interface so that panics / step-budget overruns become findings instead of killing the process",
    "map iteration order is decided by the simulator (source rewrite of a scratch copy); any order is a legal Go execution",
]

COMPONENTS = {
    "res": {
        "real": ["resource/cobalt", "resource/plugins/cpumem (+schedule, types)", "store/etcdv3/meta (ETCD)", "utils (PCR/Txn)", "etcd clientv3 KV + lessor"],
        "stub": ["etcd server (simetcd)"],
    },
}


CLU_ASSUME = [
    "simetcd (in-memory MVCC etcd model: revisions, txns, leases on the simulated clock, watches) stands in for the etcd cluster; the etcd client's KV, lessor and concurrency (session/mutex) code is real",
    "simengine (stateful per-node container engine) stands in for docker/yavirt engines",
    "a crash is the death of every goroutine of the core instance at a seam step; the bbolt log file is real and is handed to the new instance as a copy taken at that step",
    "exactly one injected failure per history; steps run under a utils.Txn rollback context (compensating steps) are never failed by injection",
    "no garbage collection inside a run (GOGC off, collect between runs), GOMAXPROCS=1: needed for replayable goroutine order between seams",
]

COMPONENTS["cluster"] = {
    "real": ["cluster/calcium", "resource/cobalt", "resource/plugins/cpumem", "store/etcdv3 (Mercury) + meta (ETCD)", "lock/etcdlock + etcd client concurrency (Session, Mutex)", "etcd clientv3 KV + lessor", "wal (Hydro) + wal/kv (Lithium) + bbolt on a real file", "utils.Txn/PCR, strategy, types"],
    "stub": ["etcd server (simetcd)", "node engines (simengine)", "metrics (zero-value client)", "engine cache background checkers (not started)"],
}


def clu(rule, level="exploration", quick=None, thorough=None, probes=(), **kw):
    d = {
        "harness": "cluster",
        "level": level,
        "quick": quick or {"seconds": 40, "runs": 4000},
        "thorough": thorough or {"seconds": 900, "runs": 400000},
        "rule": rule,
        "assumptions": CLU_ASSUME,
        "expect_probes": ["op_create"] + list(probes),
    }
    d.update(kw)
    return d


_C = ("one evaluation = one seeded history of 3-10 cluster API calls (create with every strategy / node filter incl. repeated and cross-pod includes, "
      "remove, dissociate, realloc, replace, set-node, control, add/remove node and pod, node-resource check, capacity) on 1-2 pods and 1-4 nodes "
      "(random cores, memory, NUMA, labels) through real Calcium over simulated etcd and engines; ")
_NT = "non-trivial = at least one workload was created / changed / removed; distinct = distinct hash of the full seam trace (task, call, fault decision at every scheduler step)"

def res(level_rule, extra_probes=(), **kw):
    d = {
        "harness": "res",
        "level": "exploration",
        "quick": {"seconds": 25, "runs": 24000},
        "thorough": {"seconds": 600, "runs": 4000000},
        "rule": level_rule,
        "assumptions": RES_ASSUME,
        "expect_probes": ["alloc_ok", "realloc_ok", "numa_plan_used", "fragment_core_used"] + list(extra_probes),
    }
    d.update(kw)
    return d


_R = ("one evaluation = one seeded history of 4-30 resource-manager operations (alloc / rollback / release / realloc / "
      "rollback-realloc / set-capacity / remap / capacity probe / corrupt+fix) on 1-2 seeded nodes (share base 10/100/1000, "
      "max share -1..3, oversold and half cores, optional NUMA split) with 0-2 injected store errors; "
      "non-trivial = at least one allocation or re-allocation was committed; distinct = distinct hash of the full seam trace "
      "(task, store call, fault decision at every step)")

def small(harness, rule, probes=(), level="exploration", quick=None, thorough=None, assumptions=None, **kw):
    d = {"harness": harness, "level": level,
         "quick": quick or {"seconds": 25, "runs": 8000},
         "thorough": thorough or {"seconds": 600, "runs": 2000000},
         "rule": rule, "assumptions": assumptions or CLU_ASSUME[:1] + CLU_ASSUME[4:], "expect_probes": list(probes)}
    d.update(kw)
    return d


COMPONENTS["wal"] = {"real": ["wal (Hydro, HydroEvent)", "wal/kv (Lithium)", "go.etcd.io/bbolt on a real file"], "stub": ["event handlers (seeded outcomes)"]}
COMPONENTS["txn"] = {"real": ["utils.Txn", "utils.PCR"], "stub": ["the three step functions (seeded outcomes)"]}
COMPONENTS["lock"] = {"real": ["store/etcdv3/meta.CreateLock", "lock/etcdlock", "etcd client concurrency (Session, Mutex)", "etcd client lessor + KV", "store/redis CreateLock + lock/redis", "muroq/redislock", "go-redis client"], "stub": ["etcd server (simetcd)", "redis server (miniredis inside the bubble, served over in-memory pipes, TTLs on the virtual clock)"]}
COMPONENTS["eph"] = {"real": ["store/etcdv3/meta.StartEphemeral", "etcd client lessor + KV", "store/redis StartEphemeral", "go-redis client"], "stub": ["etcd server (simetcd)", "redis server (miniredis inside the bubble)"]}
COMPONENTS["store"] = {"real": ["store/etcdv3 (Mercury: pods, nodes, workloads, statuses, processing, deploy status)", "store/etcdv3/meta (ETCD: batch create/update/put, BindStatus)", "store/redis (Rediaron: the same)", "etcd clientv3 KV + lessor", "go-redis client", "utils.MakeWorkloadName/ParseWorkloadName", "engine factory (for node engines attached on read)"], "stub": ["etcd server (simetcd, leases on the virtual clock)", "redis server (miniredis inside the bubble, TTLs on the virtual clock)", "node engines (simengine)"]}

COMPONENTS["send"] = {"real": ["rpc.Vibranium.Send + transform (chunking)", "cluster/calcium SendLargeFile + locks", "store/etcdv3", "lock/etcdlock + etcd concurrency"], "stub": ["gRPC server stream (fake stream object)", "etcd server (simetcd)", "node engines (simengine: read all / reject at once / abort after k bytes)"]}
COMPONENTS["retry"] = {"real": ["client/interceptor NewStreamRetry + retryStream", "cenkalti/backoff on the virtual clock"], "stub": ["grpc.Streamer and client streams (scripted breaks)"]}
COMPONENTS["disc"] = {"real": ["discovery/helium", "store/etcdv3 ServiceStatusStream + RegisterService", "store/etcdv3/meta StartEphemeral", "etcd client KV + lessor"], "stub": ["etcd server (simetcd)", "subscribers (prompt / slow / stuck readers)"]}
COMPONENTS["mon"] = {"real": ["selfmon.NodeStatusWatcher (withActiveLock, monitor, initNodeStatus)", "cluster/calcium (SetNode, ListPodNodes, NodeStatusStream, status)", "store/etcdv3 (BindStatus, watches)", "etcd client KV + lessor"], "stub": ["etcd server (simetcd)", "node agents (heartbeat tasks)", "node engines (simengine)"]}

COMPONENTS["plan"] = {"real": ["cluster/calcium CalculateCapacity + pod locks + doGetDeployStrategy", "resource/cobalt (concurrent plugin calls, mergeCapacity, total)", "strategy (AUTO, GLOBAL, DRAINED, EACH, FILL)", "store/etcdv3 (nodes, node status, GetDeployStatus over workloads and in-progress markers)", "lock/etcdlock + etcd client concurrency, KV, lessor", "wal on a real bbolt file (opened, unused)"], "stub": ["resource plugins (1-3 simulated parties with scripted capacity answers; completion order chosen by the scheduler)", "etcd server (simetcd)"]}

_P = ("one evaluation = one seeded history: 1-3 simulated resource plugins (weights 0.5-100), 1-6 nodes, per plugin and node a scripted answer (capacity 1..30 or unlimited, equal-capacity ties, usage, rate; some nodes not offered by some plugin), recorded workloads and in-progress markers of the application, then 2-6 CalculateCapacity requests "
      "(every strategy incl. DUMMY, count 1-40, node limit 0-6, include filters), each repeated 1-4 times, answers changing in between; plugin completion order under fifo/random/sticky/PCT schedules, merge and candidate order from the map-order seam, in a quarter of the histories one failing plugin/store/lock call; ")
_PN = "non-trivial = at least one request reached a strategy or a DUMMY answer was compared; distinct = distinct seam-trace hash"
_PP = ["query", "plan_produced", "merge_checked"]

PROPS = {
    "C27": small("disc", "one evaluation = a seeded history of 4-13 register / deregister / subscribe (prompt, slow 2.5 s per message, or stuck reader) / unsubscribe / wait operations against real helium (push interval 1 s) over real Mercury and simulated etcd; "
                 "at the end, one push interval plus catch-up time later, every live reading subscriber must hold the registered set and have been served recently, every Unsubscribe must have returned and closed its channel; "
                 "non-trivial = at least one subscriber; distinct = distinct seam-trace hash",
                 probes=["registered", "subscribed_prompt", "subscribed_slow", "subscribed_stuck", "unsubscribe", "live_subscriber_checked"]),
    "C28": small("mon", "one evaluation = 1-3 nodes whose agents heartbeat with TTL 12-20 s, workloads reported running+healthy, and a seeded history of heartbeat lapses (agent stops, TTL expiry), status deletions, waits up to 30 s, creates, with the real selfmon watcher started before or after the lapse; "
                 "three virtual minutes after the history every workload of a dead node must be reported not running and not healthy, workloads of live nodes untouched; "
                 "non-trivial = at least one node lost its heartbeat; distinct = distinct seam-trace hash",
                 quick={"seconds": 30, "runs": 1500}, probes=["heartbeat_lapsed", "status_deleted", "watcher_started_after_a_lapse", "dead_node_workload_checked"], fault_probes=["heartbeat_lapsed", "status_deleted"]),
    "C29": small("send", "one evaluation = 1-3 Send requests, each with 1-2 files of size 0, 1, chunk-1, chunk, chunk+1, 3, 11, 12, 25 or 40 chunks to 1-3 targets (existing, missing, repeated) on 1-2 nodes whose engine reads everything, rejects the copy at once, or aborts after reading k bytes; "
                 "a Send that has not returned 20 virtual minutes after all activity stopped is a violation; non-trivial = the Send returned and its results were compared; distinct = distinct seam-trace hash",
                 quick={"seconds": 30, "runs": 3000}, probes=["sends", "file_delivered_intact", "engine_abort_reported"], fault_probes=["engine_abort_reported"]),
    "C36": small("retry", "one evaluation = one client stream through NewStreamRetry (budget 1-4) against a scripted server: 1-5 streams that deliver 0-3 messages and then break with Unavailable / Internal / EOF, 0..budget+1 failing attempts to reopen, optional cancellation by the caller after k messages, watch and non-watch methods; "
                 "non-trivial = every case; distinct = distinct (messages, requests seen by the server) hash",
                 probes=["stream_reopened", "budget_exhausted", "caller_cancelled"]),
    "C01": small("plan", _P + "C01 rules on every strategy call the real code made: names are candidates, 0 <= n <= capacity, AUTO/GLOBAL/DRAINED total = count, EACH exactly limit (or all) nodes with count each, FILL selected nodes topped up to the level, AUTO never beyond the per-node limit, the API hands the plan on unchanged; " + _PN,
                 quick={"seconds": 25, "runs": 4000}, probes=_PP + ["plan_produced_AUTO", "plan_produced_GLOBAL", "plan_produced_DRAINED", "plan_produced_EACH", "plan_produced_FILL"], fault_probes=["query_with_injected_failure"]),
    "C02": small("plan", _P + "C02 rules: a reference feasibility computation per strategy (saturating sums, per-node limit, nodes with enough room) must agree with refusal / plan on every strategy call; a refusal plans nothing and reaches the caller; " + _PN,
                 quick={"seconds": 25, "runs": 4000}, probes=_PP + ["plan_refused", "plan_refused_infeasible"], fault_probes=["query_with_injected_failure"]),
    "C03": small("plan", _P + "C03 rules, relational per strategy over every pair of candidate nodes of every produced plan (AUTO even within one among nodes that could still take one; GLOBAL usage within one per-instance share; DRAINED smaller nodes full first; EACH most capacity; FILL most instances); " + _PN,
                 quick={"seconds": 25, "runs": 4000}, probes=_PP + ["balance_checked"], fault_probes=["query_with_injected_failure"]),
    "C09": small("plan", _P + "C09 rules: what the strategy is handed (and the DUMMY answer) must equal a reference merge of the scripted answers (intersection, minimum capacity, weight-averaged usage and rate within 1e-9, saturating total), and the same question repeated 2-4 times in one state - under new completion and merge orders - must give the same answer; " + _PN,
                 quick={"seconds": 25, "runs": 4000}, probes=_PP + ["merge_checked_several_plugins", "repeated_query_compared", "dummy_checked"], fault_probes=["query_with_injected_failure"]),
    "C23": small("store", "one evaluation = one seeded history of 8-30 Store-interface calls (add/remove pod, add/remove/update node with labels and certificates, node and workload status with TTLs -1/0/3/10/30/3600, add (plain and with in-progress marker)/update/remove workload, create/delete in-progress markers, list with filters and limits, get, deploy status, virtual time passing) over 2 pods, 3 nodes, 2 apps, 2 entrypoints and 6 workload ids, "
                 "executed operation by operation against Mercury over simulated etcd and Rediaron over simulated Redis in one bubble; after every operation both stores are read back completely through the API; the comparison of a history stops at the first divergence that changes state; "
                 "non-trivial = at least one operation succeeded; distinct = distinct hash of the sequence of read-back states",
                 probes=["workload_added", "status_set", "advance", "list_checked"]),
    "C24": small("store", "as C23, with three name universes chosen by seed: (half) names that are prefixes of each other or contain '_' (a, ab, a_b, a_b_c / b, bc, b-c / n, n1, n10, n1x), (quarter) names containing '/', (quarter) names containing glob characters; in-progress markers come and go (the count of a pair without a marker of its own must still equal its recorded workloads), many list queries with every filter combination; "
                 "after every operation GetDeployStatus of every (app, entry) in use and every ListWorkloads query are compared with the set of workloads created under exactly those names, and every workload name is parsed back; "
                 "non-trivial = at least one operation succeeded; distinct = distinct read-back hash",
                 probes=["workload_added", "list_checked", "deploy_count_checked", "status_stream_opened", "status_stream_event_checked"]),
    "C25": small("store", "as C23 restricted to 2 nodes and 3 workloads of one application so that reports, repeated reports, TTL changes, removals and time steps of 1-31 s meet; after every operation the visibility of every node and workload status on both backends is compared with a reference model (visible until TTL after the latest report, or removal; TTL 0 never expires; TTL>0 refused for a missing entity); "
                 "non-trivial = at least one operation succeeded; distinct = distinct read-back hash",
                 probes=["status_set", "same_status_reported_again", "same_status_other_ttl", "status_changed", "status_without_ttl", "node_status_expired", "workload_status_expired", "advance"]),
    "C16": small("wal", "one evaluation = a seeded history of 5-35 log / commit / burst / recover / clean reopen / crash-reopen operations by 1-3 concurrent logger tasks over three event types whose handlers succeed, fail, decline, fail the check or fail to decode, or are unregistered after a restart; "
                 "every kv call (NextSequence, Put, Delete, Scan) and every handler call is a scheduler step, the process may die between any two of them (also inside a recovery) and the next instance opens a copy of the bbolt file taken at that step; 0-1 injected kv error; "
                 "non-trivial = at least one event was logged or a crash happened; distinct = distinct seam-trace hash",
                 probes=["logged", "recoveries", "recovery_with_events", "crash_reopen", "crash_inside_recovery", "burst"], fault_probes=["crash_reopen", "crash_inside_recovery"],
                 assumptions=["bbolt's own atomicity is trusted (crash points are between kv calls, no torn pages)", "the harness observes event ids through the kv seam (keys /events/<hex id>)"]),
    "C17": small("txn", "the space form{Txn,PCR} x condition{ok,fail} x follow-up{ok,fail,absent} x rollback{ok,fail,absent} x caller-cancellation point{none,before,in-cond,between,in-then,in-rollback,after} = 252 cases is enumerated by seed index, three times with step durations below, near and above the ttl, and each of those with a plain caller context and with the context of a gRPC request (peer info attached); "
                 "non-trivial = every case; distinct = distinct (case, call log) hash",
                 quick={"seconds": 20, "runs": 1512}, thorough={"seconds": 60, "runs": 15120}, exhaustive_if_runs=1512,
                 assumptions=["steps are simulated tasks parked at the scheduler; the canceller acts at the named point"]),
    "C18": small("lock", "one evaluation = 2-4 contenders, each with its own client and a fresh lock object per acquisition (as the cluster creates them), performing 4-11 lock / try-lock + hold + unlock rounds on one key with seeded hold times (some longer than the TTL, kept alive by keep-alives) and gaps, under fifo/random/sticky/PCT schedules; a quarter of the histories are convoys (three contenders re-queueing 14-23 times, every wait inside its timeout); "
                 "non-trivial = at least one acquisition; distinct = distinct seam-trace hash",
                 probes=["acquired", "acquired_after_waiting", "trylock_refused"]),
    "C19": small("lock", "as C18, and in a third of the rounds the holder loses its lock in the middle of a long hold: its lease is revoked at the server, or its client is cut off for 1.5 TTL so that the lease expires; the time between the loss at the server and the cancellation of the lock context is measured on the virtual clock; a fifth of the histories run real Calcium operations instead (a stop under a workload lock with a slow engine; a capacity query under three pod locks with a slow second plugin) and revoke one lock's lease; "
                 "non-trivial = at least one acquisition; distinct = distinct seam-trace hash",
                 probes=["loss_observed", "lease_revoked", "holder_paused", "entered_while_lost_holder_untold"], fault_probes=["lease_revoked", "holder_paused"]),
    "C26": small("eph", "one evaluation = 2-3 registrants (own clients) registering one service key with StartEphemeral (heartbeat 6-12 s), holding, and deregistering, 3-8 rounds; in half of the rounds the registrant is cut off for 1.5 TTL or its lease is revoked at the server; ownership ground truth is read from the store; "
                 "non-trivial = at least one registration; distinct = distinct seam-trace hash",
                 probes=["registered", "registrant_paused", "registration_revoked", "registered_while_another_believes", "expiry_notified"], fault_probes=["registrant_paused", "registration_revoked"]),
    "C10": clu(_C + "sequential histories carry one injected store/plugin/engine/log failure (quick: 4 sampled positions per history after a fault-free measuring run; thorough: every position), "
               "concurrent histories (2-4 client tasks on their own workloads, random/sticky/PCT schedules) are checked at quiescence; " + _NT,
               level="fault_enumeration", quick={"seconds": 40, "runs": 1200, "sweep": "err:4"}, thorough={"seconds": 1200, "runs": 40000, "sweep": "err:all"},
               probes=["op_realloc", "op_replace", "op_remove", "op_set_node"]),
    "C11": clu(_C + "one injected failure per history (quick: 4 sampled positions; thorough: every position of every operation); the store/plugin/engine snapshot before and after every failed call is compared; " + _NT,
               level="fault_enumeration", quick={"seconds": 40, "runs": 1200, "sweep": "err:4"}, thorough={"seconds": 1200, "runs": 40000, "sweep": "err:all"},
               probes=["c11_failed_op_unchanged", "failed_set_node_injected", "failed_realloc_injected", "failed_replace_injected", "failed_remove_node_injected", "failed_add_node_injected"]),
    "C12": clu(_C + "create-heavy mix (an eighth of the creates go through the real RPC handler with a client whose stream refuses every message after the first or second; an eighth run on machines that take minutes per container, without injected failures); the result stream of every create is compared with the plan the deployment actually executed (read from its in-progress markers at every scheduler step) and with store / engine state; one injected failure per history (sampled / swept); " + _NT,
               level="fault_enumeration", quick={"seconds": 40, "runs": 1200, "sweep": "err:4"}, thorough={"seconds": 1200, "runs": 40000, "sweep": "err:all"}),
    "C13": clu(_C + "while every create runs, Store.GetDeployStatus is evaluated at *every* scheduler step (everything else parked) against recorded workloads and the markers' initial values; one injected failure per history among the steps of deploying instances; concurrent histories checked at quiescence; " + _NT,
               level="fault_enumeration", quick={"seconds": 40, "runs": 1000, "sweep": "err:3"}, thorough={"seconds": 1200, "runs": 40000, "sweep": "err:all"},
               probes=["c13_monitor_checks", "c13_store_step_checked", "c13_store_instance_rolled_back"], harnesses=["cluster", "cluster", "cluster", "store"], sweep_only=["cluster"]),
    "C14": clu("one evaluation = a seeded prefix of 0-2 cluster calls, then one create (1-4 nodes, 1-3 instances, any strategy) during which the core process dies at one faultable seam step "
               "(quick: 6 sampled crash points per deployment after a measuring run; thorough: every crash point), 45 s of virtual time pass, a fresh instance opens the copied log file and runs DisasterRecover; "
               "non-trivial = the process really died inside the create; distinct = distinct seam-trace hash",
               level="fault_enumeration", quick={"seconds": 45, "runs": 700, "sweep": "crash:6"}, thorough={"seconds": 1500, "runs": 40000, "sweep": "crash:all"},
               probes=["crashed_during_create", "crash_exempt_unlogged_container"], fault_probes=["crashed_during_create"]),
    "C20": clu(_C + "every CreateLock/Lock/TryLock/Unlock is recorded per goroutine by a store wrapper; half of the histories are concurrent (2-4 tasks) and must finish without a lock timeout in fault-free runs; " + _NT,
               probes=["lock_requested_while_holding", "lock_events"]),
    "C21": clu(_C + "capacity-heavy mix with DUMMY strategy and a request every node satisfies; nodes go up and down through heartbeat TTLs as virtual time advances; result set compared with a reference filter; " + _NT,
               probes=["c21_selection_checked"]),
    "C22": clu("one evaluation = a concurrent history (2-3 client tasks, random/sticky/PCT schedules) of 6-13 add-pod/remove-pod/add-node/remove-node/create/remove calls over overlapping names with at most one injected store/plugin failure; "
               "referential consistency is checked when every call has returned and background work has run dry; " + _NT,
               probes=["op_add_node", "op_remove_node", "op_remove_pod"]),
    "C30": clu(_C + "half of the operations are run-and-wait requests (count 1-3, stdin or not) against engines scripted with log lines, exit codes and log/wait failures, plus one injected failure on an engine Logs/Attach/Wait call; " + _NT,
               quick={"seconds": 40, "runs": 1200, "sweep": "err:3"}, thorough={"seconds": 900, "runs": 40000, "sweep": "err:all"},
               probes=["lambda_stream_closed", "lambda_exit_code_reported"]),
    "C34": clu("one evaluation = one concurrent history of 7-14 calls by 2-4 client tasks (create, remove spanning several workloads and nodes, dissociate, realloc, replace, control, set-node, add/remove node and pod, capacity, node-resource check, and ListPods / GetNode / GetWorkloadsStatus / Send through the RPC layer) against one simulated cluster, "
               "in a build with the Go race detector; the scheduler releases parked calls in batches of 1-4 whose members run one after the other but are not ordered by any hand-off, so the detector treats their segments as concurrent; "
               "every detector report whose two accesses are made by core code (directly or inside library code core called) is a violation; non-trivial = at least one workload created; distinct = distinct seam-trace hash",
               level="exploration", quick={"seconds": 50, "runs": 4000}, thorough={"seconds": 1200, "runs": 400000}, race=True,
               probes=["op_remove", "op_rpc_pods", "op_rpc_send", "race_reports"],
               assumptions=CLU_ASSUME[:2] + ["race build (-race) with the runtime's scheduler randomisation compiled out through a build overlay (const randomizeScheduler), GOMAXPROCS=1, GC off",
                                            "only races between segments released in one batch, or involving goroutines that do not pass a seam in between, are visible; synchronisation inside the simulated servers (their mutexes) adds happens-before edges a real network would not"]),
    "C04": res(_R, extra_probes=["bound_instance"]),
    "C05": res(_R, extra_probes=["bound_instance"]),
    "C06": res(_R, extra_probes=["direct_plugin_calls"]),
    "C07": res(_R, extra_probes=["capacity_query", "capacity_unlimited"]),
    "C08": res(_R, extra_probes=["rollback_alloc_ok", "rollback_realloc_ok", "release_ok", "alloc_injected_failure"]),
    "C15": res(_R, extra_probes=["c15_corrupted", "c15_fix_reported_diffs"]),
    "C32": res(_R + " Half of the workers run the whole-system harness instead (" + _C + "after every operation that changed CPU bindings on a node the cores pushed to the engine for every unbound workload on it are compared with the cores that have a full free share; one injected failure per history, sampled / swept; a third of the histories are concurrent instead: 2-4 clients change bindings at once, engines take 3 s per parameter update, no injected failure, checked at quiescence);",
               extra_probes=["remap_unbound_workload", "remap_no_free_core", "c32_remap_checked"], harnesses=["res", "cluster"], sweep_only=["cluster"],
               quick={"seconds": 35, "runs": 24000, "sweep": "err:3"}, thorough={"seconds": 900, "runs": 4000000, "sweep": "err:all"}),
    "C33": res(_R, extra_probes=["c33_nochange_realloc"]),
}

_MON = ("Invariant checked inside seeded simulated histories of the real resource manager + real cpumem plugin over a simulated "
        "plugin store (with injected store errors and simulator-chosen map iteration order). The property itself has no schedule or "
        "fault in its statement; the simulator supplies the population of node states and requests reached through real API histories. "
        "A clean batch is evidence over the explored runs, not proof.")
_NOTE_RES = ("Trusted: the simetcd model of the plugin's etcd (KV/Txn/lease semantics), the reference oracle in sim/harness/res.go, "
             "the Go runtime's determinism at GOMAXPROCS=1 (policed by per-run trace-hash re-runs).")

_NOTE_CLU = ("Trusted: simetcd and simengine as models of etcd and of node engines, the oracles in sim/harness/cluster_*.go, the Go runtime's "
             "determinism at GOMAXPROCS=1 with GC off (policed by trace-hash re-runs in a fresh process). A clean batch is evidence over the explored runs, not proof.")

_NOTE_S = ("Trusted: simetcd as a model of etcd (leases on the virtual clock, txns, watches), the reference oracle of the harness, the Go runtime's determinism at GOMAXPROCS=1 with GC off "
           "(policed by trace-hash re-runs). A clean batch is evidence over the explored runs, not proof.")

_MONP = ("Invariant monitor inside simulated histories of the real planning path (Calcium -> cobalt -> strategy over Mercury/simulated etcd) with simulated resource-plugin parties; "
         "every invocation of a strategy function made by the real code is recorded (through the exported strategy.Plans table) with its inputs and result and held against the rule. "
         "The statement itself is over inputs only: schedules and faults cannot change a strategy's answer, the simulator supplies the parties, the orders and the population of inputs. ")
_NOTE_P = _NOTE_S + " Candidate sets have at most 6 nodes; the inputs are those the real merge and the real deploy-status count produce, not arbitrary structs."

MANIFEST_TEXT = {
    "C01": {"text": _MONP + "Found and fixed: FILL overflow on unlimited capacity (cfb1197).", "note": _NOTE_P},
    "C02": {"text": _MONP + "Refusal <=> infeasible under the strategy's rule, by a reference feasibility computation. Found and fixed: negative total after an unlimited node (eaa7b5c).", "note": _NOTE_P},
    "C03": {"text": _MONP + "Pairwise balancing relations per strategy. Found and fixed: DRAINED ordering was not an ordering (9a7e35d).", "note": _NOTE_P},
    "C09": {"text": "Simulated plugin parties answer in scheduler-chosen order, the merge iterates in simulator-chosen map order: the merged capacity handed to the strategy equals the reference (intersection, min, weighted average, saturating total) and repeating the question in the same state gives the same answer. Found and fixed: first plugin entered the merge unweighted, making the result order-dependent (de14cb0).", "note": _NOTE_P},
    "C27": {"text": "Real helium + real Mercury service registration over simulated etcd with prompt, slow and stuck subscribers: after the last change and one push interval every live reading subscriber holds exactly the registered set; Unsubscribe returns and closes the channel. Found and fixed two defects (blocking dispatch; subscribers invisible to haxmap.ForEach).", "note": _NOTE_S + " Operations are separated by a few virtual milliseconds so that helium's select never has two ready cases at one instant (Go picks among ready cases at random; no seed controls that)."},
    "C28": {"text": "The real node-status watcher with TTL heartbeats on the virtual clock: for every node whose heartbeat lapsed or was deleted (watcher started before or after), all its workloads are reported neither running nor healthy within three virtual minutes; live nodes' workloads keep their status.", "note": _NOTE_S + " etcd backend only (the Redis store streams need keyspace notifications that the Redis stub lacks)."},
    "C29": {"text": "Send through the real RPC handler, chunker, SendLargeFile, workload locks and simulated engines: one result per distinct target and file, byte-identical content with the requested owner/mode where the engine accepted the copy, an error where it did not, and the call always returns (bounded virtual time after quiescence). Found and fixed three defects (empty file, repeated target, hang on missing target / engine abort).", "note": _NOTE_S},
    "C36": {"text": "The real retry interceptor over scripted stream breaks with back-off on the virtual clock: the client sees the concatenation of the servers' messages while reopening stays within the budget, every new stream gets the original request, nothing is opened after the caller cancelled, non-watch methods get the raw stream.", "note": _NOTE_S + " GODEBUG=randautoseed=0 pins math/rand's global source used by the back-off jitter."},
    "C16": {"text": "History check against a model of the log file: on every recovery the sequence of handler invocations must equal the uncommitted events in id order, each once (a prefix of it when the process dies inside the recovery); an event is gone exactly when it was handled successfully or declined; ids strictly increase over the whole history including restarts; the real file is compared with the model after every phase.", "note": "Trusted: bbolt's transaction atomicity; crash = death between two kv calls with the file copied at that instant. " + _NOTE_S},
    "C17": {"text": "Complete enumeration (exhaustive: true in the evidence when all 252 x 3 x 2 cases ran) of outcome vectors x cancellation points for utils.Txn and utils.PCR under the simulator: call log and return value are compared with the specification (then iff cond ok; rollback once iff a step failed, with the right flag; first failure returned; rollback context not reached by the caller's cancellation; PCR rolls back only on commit failure).", "note": _NOTE_S},
    "C23": {"text": "Differential history check: the same seeded operation sequence runs against the real etcd store over simulated etcd and the real Redis store over simulated Redis; every operation must succeed or fail on both, return the same result, and leave the same complete read-back; a create that fails must leave the read-back unchanged. Found and fixed five divergences (see known_findings.json); two remain recorded (Redis SetNodeStatus without entity check - pinned by an existing test; duplicate ids in GetWorkloads).", "note": _NOTE_S + " Sequential histories on a virtual clock, no injected faults: the property has no schedule in it; the simulator contributes the two in-bubble servers and time. miniredis stands in for Redis."},
    "C24": {"text": "Model-based history check on both backends: list and deploy-count queries return exactly the workloads created under the queried application / entrypoint / node, names parse back. Holds for names that are prefixes of each other or contain '_'; names containing '/' (both backends) or glob characters (Redis) break isolation - recorded findings matched by the kind of names in play, so a violation among plain names is still reported.", "note": _NOTE_S + " The status stream is driven on the etcd store only (1-2 streams stay open during a history and every status report is checked against what they deliver); the Redis stream needs keyspace notifications, which the simulated Redis does not provide."},
    "C25": {"text": "Status reports with TTLs on the virtual clock against a reference model, on both backends: accepted only for existing entities (TTL>0), visible until TTL after the latest report or removal of the entity, repeated reports extend, TTL 0 stays. Found and fixed: node status outlived the node (both backends). Recorded: Redis accepts a node status for a missing node.", "note": _NOTE_S},
    "C18": {"text": "Contenders under seeded schedules on the etcd backend (real etcdlock + real concurrency.Mutex/Session + real lessor over simetcd) and on the Redis backend (real lock/redis + redislock + go-redis over miniredis in the bubble): never two holders with a live lock context, a try-lock on a held lock fails without virtual time passing, a waiter acquires after a release or fails at its wait timeout, everybody finishes.", "note": _NOTE_S + ""},
    "C19": {"text": "Lease revocation and client pauses past the TTL while another contender waits: the holder's lock context must be cancelled within one keep-alive interval (TTL/3, plus the etcd lessor's 0.5-1 s polling granularity) of the loss at the server, and a stale holder may coexist with the next holder no longer than that. On the Redis backend (TTL elapsing on the virtual clock) the lock context is never cancelled: recorded findings KF-C19-1..4.", "note": _NOTE_S},
    "C26": {"text": "Registrants with pauses longer than the TTL, server-side revocation and deregistration: two registrants may both believe they hold the key only while the older one has not yet been able to complete a heartbeat tick; a lapsed registrant's expiry channel closes; deregistering or refreshing never touches a registration created by someone else (ownership read from the store). etcd and Redis backends; on Redis a fixed defect (lapse unnoticed when the key is gone) and four recorded findings (no owner token in the key).", "note": _NOTE_S + " The literal statement (never two believers) cannot be met by any lease scheme during the pause itself; the oracle demands it once the stale registrant could have learnt of its lapse."},
    "C10": {"text": "Whole-system simulation: real Calcium/cobalt/cpumem/Mercury/etcd-concurrency/WAL over simulated etcd and engines. After every operation of a sequential history (each history swept with single injected failures) and at quiescence of concurrent histories, every node's recorded usage must equal the sum of the workloads recorded on it and the node resource check must report no differences.", "note": _NOTE_CLU},
    "C11": {"text": "Fault enumeration over the seam calls of every operation kind: for each single failing step, the canonical snapshot of store, plugin records and engine containers after a call that reported failure must equal the snapshot before it (item-wise for multi-item calls; a failed replace keeps the old workload recorded and running).", "note": _NOTE_CLU},
    "C12": {"text": "For every create the result stream must close and carry either one failure with nothing created or exactly one message per instance of the plan the deployment executed; successes must be recorded, running and placed as reported, failures must leave no record, container or usage. With and without one injected failure.", "note": _NOTE_CLU},
    "C13": {"text": "(A quarter of the workers run the marker protocol of a deployment directly against both stores - etcd and Redis - with instances failing before or after they are recorded, checking the same bounds after every step.) Step invariant evaluated by the scheduler at every step of every create (all goroutines parked, so the read is atomic): recorded <= GetDeployStatus <= prior + planned per node; after return the count equals the recorded workloads and no marker remains. Single injected failures among the instance-deployment steps.", "note": _NOTE_CLU + " The whole-system part runs on etcd only; the Redis backend's marker handling is covered by C23's differential check."},
    "C14": {"text": "Crash-point enumeration: the process is killed at each faultable seam step of a deployment (store, plugin, engine and log writes/commits), a fresh instance recovers from the shared store, engines and the real bbolt log file; afterwards usage == sum of workloads on every node, no marker of the interrupted deployment remains, every instance is recorded+started or absent from store and engine (except a container whose creating goroutine made no further step before the crash).", "note": _NOTE_CLU},
    "C20": {"text": "A store wrapper records every lock call per goroutine for every operation kind and adversarial node filters; pod locks must precede workload locks, each group strictly ascending, node-operation locks only with nothing else held; concurrent fault-free histories must not end in lock timeouts.", "note": _NOTE_CLU},
    "C21": {"text": "The node set an operation acts on (observed through DUMMY capacity with a request every node satisfies, and through plans) must equal a reference filter over the simulated store state, with node availability driven by heartbeat TTLs on the virtual clock.", "note": _NOTE_CLU + " No schedule or fault dimension in the property itself: invariant monitor inside simulated histories."},
    "C22": {"text": "Concurrent histories of pod/node/workload calls on overlapping names under seeded schedules (random, sticky, PCT) with at most one injected failure; at quiescence every node has a resource record and vice versa, every node's pod exists, no removed pod has nodes, every workload's node exists and listing workloads succeeds. Four races found by this check are recorded as known findings (see known_findings.json).", "note": _NOTE_CLU},
    "C30": {"text": "Run-and-wait requests against engines with scripted log/wait outcomes: the stream closes, the last message per workload is its exit code (or an error), and afterwards record, container, usage and the create-lambda log entry are gone.", "note": _NOTE_CLU},
    "C34": {"text": "The simulated cluster in a race-detector build under batch-release scheduling: concurrent API histories are explored by seed and every data-race report attributed to core code is a violation with the two stacks as evidence and the seed/schedule as replay. Found and fixed two races (RPC task counter, shared err in RemoveWorkload's per-node goroutines).", "note": _NOTE_CLU + " The race detector decides happens-before, the simulator decides which segments are unordered; races between segments the scheduler never co-releases are not visible. The harness' own unsynchronised bookkeeping is reported by the detector too and is filtered out by stack attribution (counted in the evidence as race_reports_outside_core)."},
    "C04": {"text": _MON + " Oracle: the instances of every accepted Alloc/Realloc fit jointly into the pre-state's free cores, NUMA memory and total memory (valid pre-states only).", "note": _NOTE_RES},
    "C05": {"text": _MON + " Oracle: pieces of every bound instance = round(cpu*shareBase), at most one fractional core, recorded amount agrees.", "note": _NOTE_RES},
    "C06": {"text": _MON + " Liveness is decided by a deterministic step budget: every loop of the plugin's planner is instrumented (scratch copy only) and a call that exceeds 1e6 iterations, or panics, is a violation with a replayable input.", "note": _NOTE_RES + " Loop ticks are inserted by tools/maporder into the scratch copy, not into /repo."},
    "C07": {"text": _MON + " Oracle: for the reported capacity c, Alloc(c) is accepted and Alloc(c+1) refused on the same state; memory-only capacity drops by k after allocating k.", "note": _NOTE_RES},
    "C08": {"text": "History oracle against a reference model: after every operation (and every injected store failure) the plugin's node record equals the sum of the model's live workloads; failed operations and rollbacks restore the record exactly.", "note": _NOTE_RES},
    "C15": {"text": _MON + " Drift is injected by overwriting the plugin record in the simulated store; after repair the check reports no differences and the record equals the model sum.", "note": _NOTE_RES},
    "C32": {"text": _MON + " Oracle: Remap returns, for exactly the unbound workloads, the cores with a full free share (all cores if none).", "note": _NOTE_RES},
    "C33": {"text": _MON + " Oracle: a keep-binding realloc with zero CPU delta keeps the core set and NUMA node whenever staying is feasible (memory fits where the workload is).", "note": _NOTE_RES},
}

NOT_APPLICABLE = [
    {"property_id": "C31", "reason": "pure translation inside engine/docker, which every simulation replaces by the simulated engine; no schedule, clock, fault or history can influence it (DESIGN.md section 6)"},
    {"property_id": "C35", "reason": "credential matching is a pure function of two string pairs; nothing for a scheduler or fault injector to vary (DESIGN.md section 6)"},
]
