#!/bin/bash
# Runs the repository's own test suite with the verif guard OFF (no build tag) and
# compares against the stable baseline list when it is available.
export GOFLAGS=-mod=mod GOPROXY=off GOSUMDB=off
OUT=${1:-/var/tmp/verif-baseline.json}
cd /repo && go test -json -vet=off -count=1 -timeout 25m ./... > "$OUT" 2>/dev/null
python3 - "$OUT" <<'PY'
import json,sys
passed=set(); failed=set()
for l in open(sys.argv[1]):
    try: e=json.loads(l)
    except Exception: continue
    if e.get('Test') and e.get('Action') in ('pass','fail'):
        k=e['Package']+'::'+e['Test']
        (passed if e['Action']=='pass' else failed).add(k)
try:
    base=set(json.load(open('/root/.vp/BASELINE.json'))['stable_pass'])
except Exception:
    base=None
print('passed',len(passed),'failed',len(failed))
if base is not None:
    missing=sorted(base-passed)
    print('baseline',len(base),'missing',len(missing))
    for m in missing: print('  MISSING',m)
    sys.exit(1 if missing else 0)
PY
