#!/usr/bin/env python3
"""mutcheck.py <seeded-dir> [--props C10,C11] [--tier quick|thorough] [--seconds N]

Applies <seeded-dir>/patch.diff to /repo (git apply), runs the check of the property the
change was made for (meta.json: "property"; --props overrides / adds others), restores
/repo (git checkout -- .) and /verif's evidence and replay files, and records the outcome
in <seeded-dir>/result.json: caught (exit 1 with a VIOLATION line), missed (exit 0) or
trouble (exit 2). Never commits anything in /repo.
"""
import json, os, subprocess, sys, time, shutil

VERIF = os.path.dirname(os.path.dirname(os.path.abspath(__file__)))
REPO = "/repo"


def sh(cmd, **kw):
    return subprocess.run(cmd, stdout=subprocess.PIPE, stderr=subprocess.STDOUT, text=True, **kw)


def main():
    args = sys.argv[1:]
    d = os.path.abspath(args[0])
    meta = json.load(open(os.path.join(d, "meta.json")))
    props = [meta["property"]]
    tier = "quick"
    seconds = None
    i = 1
    while i < len(args):
        if args[i] == "--props":
            props = args[i + 1].split(","); i += 2
        elif args[i] == "--tier":
            tier = args[i + 1]; i += 2
        elif args[i] == "--seconds":
            seconds = args[i + 1]; i += 2
        else:
            i += 1
    if sh(["git", "-C", REPO, "status", "--porcelain"]).stdout.strip():
        print("refusing: /repo has uncommitted changes"); return 2
    patch = os.path.join(d, "patch.diff")
    r = sh(["git", "-C", REPO, "apply", "--whitespace=nowarn", patch])
    if r.returncode != 0:
        print("patch does not apply:\n" + r.stdout); return 2
    results = {}
    try:
        for p in props:
            env = dict(os.environ, VERIF_TIER=tier)
            cmd = [sys.executable, os.path.join(VERIF, "bin", "check.py"), p, "--tier", tier]
            if seconds:
                cmd += ["--seconds", str(seconds)]
            t0 = time.time()
            r = sh(cmd, env=env, cwd=VERIF)
            lines = [l for l in r.stdout.splitlines() if l.startswith(("VIOLATION", "KNOWN-FINDING", "HARNESS TROUBLE", p + " "))]
            viol = [l for l in r.stdout.splitlines() if l.startswith("VIOLATION")]
            outcome = {0: "missed", 1: "caught"}.get(r.returncode, "trouble")
            detail = []
            # keep the first replay file of the catch as the witness
            if viol:
                try:
                    rp = viol[0].split("replay=")[1].strip()
                    rf = json.load(open(rp))
                    detail = [{"rule": v["rule"], "sig": v["sig"], "detail": v["detail"][:600]} for v in rf.get("violations", [])[:2]]
                    shutil.copy(rp, os.path.join(d, "witness-%s.json" % p))
                except Exception as e:  # noqa
                    detail = [{"error": str(e)}]
            results[p] = {"outcome": outcome, "exit": r.returncode, "wall_s": round(time.time() - t0, 1), "tier": tier, "lines": lines[:12], "witness": detail}
            print(p, outcome, "%.0fs" % (time.time() - t0))
            for l in lines[:6]:
                print("   ", l[:300])
    finally:
        sh(["git", "-C", REPO, "checkout", "--", "."])
        sh(["git", "-C", VERIF, "checkout", "--", "evidence"])
        sh(["git", "-C", VERIF, "clean", "-fdq", "replays"])
        sh(["git", "-C", VERIF, "checkout", "--", "replays"])
    prev = {}
    rp = os.path.join(d, "result.json")
    if os.path.exists(rp):
        prev = json.load(open(rp))
    prev.update(results)
    json.dump(prev, open(rp, "w"), indent=1)
    return 0


if __name__ == "__main__":
    sys.exit(main())
