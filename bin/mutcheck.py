#!/usr/bin/env python3
"""mutcheck.py <seeded-dir> [--props C10,C11] [--tier quick|thorough] [--seconds N]

Decides whether a seeded change is caught. A scratch copy of /repo's HEAD is made under
/var/tmp, <seeded-dir>/patch.diff is applied to it, and the check of the property the
change was made for (meta.json: "property"; --props overrides / adds others) is run with
VERIF_REPO pointing at the copy and VERIF_OUT_DIR at a scratch directory, so neither
/repo nor /verif's evidence is touched. Outcome per property in <seeded-dir>/result.json:
caught (exit 1 with a VIOLATION line), missed (exit 0) or trouble (exit 2); the first
replay file of a catch is kept as witness-<id>.json. The copy is removed afterwards.

(The same can be done by hand on /repo itself: git -C /repo apply <patch>; run the check;
git -C /repo checkout -- .)
"""
import json, os, subprocess, sys, time, shutil

VERIF = os.path.dirname(os.path.dirname(os.path.abspath(__file__)))


def sh(cmd, **kw):
    return subprocess.run(cmd, stdout=subprocess.PIPE, stderr=subprocess.STDOUT, text=True, **kw)


def main():
    args = sys.argv[1:]
    d = os.path.abspath(args[0])
    meta = json.load(open(os.path.join(d, "meta.json")))
    props = [meta["property"]]
    tier = "quick"
    seconds = None
    i = 1
    while i < len(args):
        if args[i] == "--props":
            props = args[i + 1].split(","); i += 2
        elif args[i] == "--tier":
            tier = args[i + 1]; i += 2
        elif args[i] == "--seconds":
            seconds = args[i + 1]; i += 2
        else:
            i += 1
    scratch = "/var/tmp/verif-mut-%d" % os.getpid()
    shutil.rmtree(scratch, ignore_errors=True)
    os.makedirs(scratch)
    repo = os.path.join(scratch, "repo")
    r = sh(["git", "clone", "-q", "--no-hardlinks", "/repo", repo])
    if r.returncode != 0:
        print("cannot copy /repo:\n" + r.stdout); return 2
    r = sh(["git", "-C", repo, "apply", "--whitespace=nowarn", os.path.join(d, "patch.diff")])
    if r.returncode != 0:
        print("patch does not apply:\n" + r.stdout)
        shutil.rmtree(scratch, ignore_errors=True)
        return 2
    results = {}
    try:
        for p in props:
            out = os.path.join(scratch, "out")
            env = dict(os.environ, VERIF_TIER=tier, VERIF_REPO=repo, VERIF_OUT_DIR=out)
            cmd = [sys.executable, os.path.join(VERIF, "bin", "check.py"), p, "--tier", tier]
            if seconds:
                cmd += ["--seconds", str(seconds)]
            t0 = time.time()
            r = sh(cmd, env=env, cwd=VERIF)
            lines = [l for l in r.stdout.splitlines() if l.startswith(("VIOLATION", "KNOWN-FINDING", "HARNESS TROUBLE", "BUILD FAILED", p + " "))]
            viol = [l for l in r.stdout.splitlines() if l.startswith("VIOLATION")]
            outcome = {0: "missed", 1: "caught"}.get(r.returncode, "trouble")
            detail = []
            if viol:
                try:
                    rp = viol[0].split("replay=")[1].strip()
                    rf = json.load(open(rp))
                    detail = [{"rule": v["rule"], "sig": v["sig"], "detail": v["detail"][:700]} for v in rf.get("violations", [])[:2]]
                    shutil.copy(rp, os.path.join(d, "witness-%s.json" % p))
                except Exception as e:  # noqa
                    detail = [{"error": str(e)}]
            if outcome == "trouble":
                lines += r.stdout.splitlines()[-15:]
            results[p] = {"outcome": outcome, "exit": r.returncode, "wall_s": round(time.time() - t0, 1), "tier": tier,
                          "violations": len(viol), "lines": [l[:400] for l in lines[:14]], "witness": detail}
            print(p, outcome, "%.0fs" % (time.time() - t0), "violations=%d" % len(viol))
            for w in detail[:1]:
                print("    rule=%s sig=%s" % (w.get("rule"), w.get("sig")))
    finally:
        shutil.rmtree(scratch, ignore_errors=True)
    prev = {}
    rp = os.path.join(d, "result.json")
    if os.path.exists(rp):
        prev = json.load(open(rp))
    prev.update(results)
    json.dump(prev, open(rp, "w"), indent=1)
    return 0


if __name__ == "__main__":
    sys.exit(main())
