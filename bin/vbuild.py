#!/usr/bin/env python3
"""Build the simulation test binary from /repo's *current working tree*.

The build is content-addressed: the key is a hash over every Go source / go.mod /
go.sum file of /repo's working tree (tracked or not) plus the simulator sources in
/verif/sim and the rewrite tool. A key that was already built is reused; any edit to
/repo or /verif/sim yields a new key and a full rebuild (scratch copy, map-order
rewrite, tick insertion, `go test -c -tags verif`).
"""
import fcntl
import hashlib
import json
import os
import shutil
import subprocess
import sys
import time

REPO = os.environ.get("VERIF_REPO", "/repo")
VERIF = os.path.dirname(os.path.dirname(os.path.abspath(__file__)))
ROOT = os.environ.get("VERIF_SCRATCH", "/var/tmp/verif-build")
GO = "go1.26.8"

ENV = dict(os.environ)
ENV.update({
    "GOFLAGS": "-mod=mod", "GOPROXY": "off", "GOSUMDB": "off", "GOTOOLCHAIN": "local",
    "GONOSUMDB": "*", "GONOSUMCHECK": "1", "GOFLAGS_EXTRA": "",
})


def _files(base, exts=(".go", ".mod", ".sum")):
    out = []
    for d, dirs, fs in os.walk(base):
        dirs[:] = [x for x in dirs if x not in (".git", "node_modules")]
        for f in fs:
            if f.endswith(exts):
                out.append(os.path.join(d, f))
    out.sort()
    return out


def tree_hash():
    h = hashlib.sha256()
    for base in (REPO, os.path.join(VERIF, "sim"), os.path.join(VERIF, "tools", "maporder")):
        for p in _files(base):
            h.update(os.path.relpath(p, base).encode())
            h.update(b"\0")
            with open(p, "rb") as fh:
                h.update(hashlib.sha256(fh.read()).digest())
    return h.hexdigest()[:16]


def run(cmd, cwd=None, env=None, timeout=3600):
    r = subprocess.run(cmd, cwd=cwd, env=env or ENV, stdout=subprocess.PIPE, stderr=subprocess.STDOUT, timeout=timeout)
    return r.returncode, r.stdout.decode(errors="replace")


def ensure_tools():
    mo = os.path.join(VERIF, "bin", "maporder")
    src = os.path.join(VERIF, "tools", "maporder", "main.go")
    if not os.path.exists(mo) or os.path.getmtime(mo) < os.path.getmtime(src):
        rc, out = run([GO, "build", "-o", mo, "."], cwd=os.path.join(VERIF, "tools", "maporder"))
        if rc != 0:
            sys.stderr.write(out)
            raise SystemExit(2)
    return mo


def ensure_build(race=False, verbose=True):
    """Returns (build_dir, binary_path, info)."""
    os.makedirs(ROOT, exist_ok=True)
    key = tree_hash()
    bdir = os.path.join(ROOT, key)
    name = "sim-race.test" if race else "sim.test"
    binp = os.path.join(bdir, name)
    lock = open(os.path.join(ROOT, ".lock"), "w")
    fcntl.flock(lock, fcntl.LOCK_EX)
    try:
        t0 = time.time()
        if os.path.exists(binp) and os.path.exists(os.path.join(bdir, "ok-" + name)):
            _touch_current(bdir)
            return bdir, binp, json.load(open(os.path.join(bdir, "info.json")))
        mo = ensure_tools()
        if not os.path.exists(os.path.join(bdir, "prepared")):
            _gc(keep=key)
            if os.path.exists(bdir):
                shutil.rmtree(bdir)
            os.makedirs(bdir)
            rc, out = run(["rsync", "-a", "--exclude", ".git", REPO + "/", os.path.join(bdir, "repo") + "/"])
            if rc != 0:
                sys.stderr.write(out)
                raise SystemExit(2)
            shutil.copytree(os.path.join(VERIF, "sim", "verifrt_src"), os.path.join(bdir, "repo", "verifrt"))
            rc, out = run([mo, os.path.join(bdir, "repo"), os.path.join(bdir, "maporder.json")], cwd=os.path.join(bdir, "repo"))
            if rc != 0:
                sys.stderr.write("maporder failed:\n" + out)
                raise SystemExit(2)
            # simulator sources
            shutil.copytree(os.path.join(VERIF, "sim"), os.path.join(bdir, "sim"), ignore=shutil.ignore_patterns("verifrt_src"))
            gm = open(os.path.join(bdir, "sim", "go.mod")).read().splitlines()
            gm = [l for l in gm if not l.startswith("replace github.com/projecteru2/core")]
            gm.append("replace github.com/projecteru2/core => ../repo")
            open(os.path.join(bdir, "sim", "go.mod"), "w").write("\n".join(gm) + "\n")
            # go.sum: core's plus whatever the simulator adds
            sums = open(os.path.join(REPO, "go.sum")).read()
            extra = os.path.join(VERIF, "sim", "go.sum.extra")
            if os.path.exists(extra):
                sums += open(extra).read()
            open(os.path.join(bdir, "sim", "go.sum"), "w").write(sums)
            open(os.path.join(bdir, "prepared"), "w").write("1")
        cmd = [GO, "test", "-c", "-tags", "verif", "-trimpath", "-vet=off", "-o", binp]
        if race:
            cmd.insert(3, "-race")
            # The race-enabled runtime deliberately randomises its scheduler
            # (runtime/proc.go: const randomizeScheduler = raceenabled). Replays need the
            # ordinary scheduling order, so the race build compiles the runtime with that
            # constant off, through a build overlay (the toolchain on disk is untouched).
            goroot = subprocess.check_output([GO, "env", "GOROOT"], env=ENV, text=True).strip()
            src = os.path.join(goroot, "src", "runtime", "proc.go")
            txt = open(src).read()
            if "const randomizeScheduler = raceenabled" not in txt:
                sys.stderr.write("BUILD FAILED (exit 2): runtime/proc.go has no randomizeScheduler constant to switch off\n")
                raise SystemExit(2)
            patched = os.path.join(bdir, "proc_norandom.go")
            open(patched, "w").write(txt.replace("const randomizeScheduler = raceenabled", "const randomizeScheduler = false"))
            ov = os.path.join(bdir, "overlay.json")
            json.dump({"Replace": {src: patched}}, open(ov, "w"))
            cmd.insert(4, "-overlay=" + ov)
        cmd.append("./harness")
        rc, out = run(cmd, cwd=os.path.join(bdir, "sim"))
        if rc != 0:
            sys.stderr.write("BUILD FAILED (exit 2):\n" + out)
            raise SystemExit(2)
        info = {"key": key, "build_s": round(time.time() - t0, 1)}
        try:
            info["maporder"] = json.load(open(os.path.join(bdir, "maporder.json")))
        except Exception:
            pass
        json.dump(info, open(os.path.join(bdir, "info.json"), "w"))
        open(os.path.join(bdir, "ok-" + name), "w").write("1")
        _touch_current(bdir)
        if verbose:
            sys.stderr.write("built %s in %.1fs\n" % (binp, time.time() - t0))
        return bdir, binp, info
    finally:
        fcntl.flock(lock, fcntl.LOCK_UN)
        lock.close()


def _touch_current(bdir):
    cur = os.path.join(ROOT, "current")
    try:
        if os.path.islink(cur) and os.readlink(cur) == bdir:
            return
        tmp = cur + ".%d" % os.getpid()
        os.symlink(bdir, tmp)
        os.replace(tmp, cur)
    except OSError:
        pass


def _gc(keep, maxkeep=6):
    ds = []
    for d in os.listdir(ROOT):
        p = os.path.join(ROOT, d)
        if os.path.isdir(p) and not os.path.islink(p) and d != keep:
            ds.append((os.path.getmtime(p), p))
    ds.sort(reverse=True)
    for _, p in ds[maxkeep - 1:]:
        shutil.rmtree(p, ignore_errors=True)


if __name__ == "__main__":
    race = "--race" in sys.argv
    b, p, info = ensure_build(race=race)
    print(p)
    print(json.dumps(info)[:400])
