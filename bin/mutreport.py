#!/usr/bin/env python3
"""mutreport.py: writes seeded/RESULTS.md from seeded/<id>/<k>/{meta.json,result.json}."""
import json, os, glob

VERIF = os.path.dirname(os.path.dirname(os.path.abspath(__file__)))
rows = []
for meta in sorted(glob.glob(os.path.join(VERIF, "seeded", "C*", "*", "meta.json"))):
    d = os.path.dirname(meta)
    m = json.load(open(meta))
    res = {}
    rp = os.path.join(d, "result.json")
    if os.path.exists(rp):
        res = json.load(open(rp))
    first = ""
    demo = os.path.join(d, "demo.md")
    if os.path.exists(demo):
        for line in open(demo):
            s = line.strip().lstrip("#").strip()
            if s:
                first = s[:110]
                break
    own = res.get(m["property"], {})
    caught_by = [p for p, r in sorted(res.items()) if r.get("outcome") == "caught"]
    how = ""
    for p in caught_by:
        w = res[p].get("witness") or []
        if w and "rule" in w[0]:
            how = "%s: %s / %s" % (p, w[0]["rule"], w[0]["sig"][:60])
            break
    rows.append((m["property"], m["alternative"], ", ".join(f.strip() for f in m["files"]), own.get("outcome", "not run"), ", ".join(caught_by), how, first))

out = ["# Seeded changes: which check catches which", "",
       "Each row is one change made by a sub-agent that was given only the property's text and a scratch worktree;",
       "it compiles and passes the existing tests. `own check` is the quick tier of the property the change was made for;",
       "`caught by` lists every check that was run against it and reported a violation (bin/mutcheck.py).", "",
       "| property | # | files | own check (quick) | caught by | first witness | what the change is |", "|---|---|---|---|---|---|---|"]
for r in rows:
    out.append("| %s | %s | %s | %s | %s | %s | %s |" % r)
n = len(rows)
own_c = sum(1 for r in rows if r[3] == "caught")
any_c = sum(1 for r in rows if r[4])
out += ["", "%d changes; %d caught by the quick check of their own property; %d caught by some check; %d not caught." % (n, own_c, any_c, n - any_c)]
open(os.path.join(VERIF, "seeded", "RESULTS.md"), "w").write("\n".join(out) + "\n")
print(out[-1])
