#!/usr/bin/env python3
"""replay.py <replay-file>: rebuild from /repo's current tree and re-execute the recorded case in a fresh process."""
import json, os, subprocess, sys
sys.path.insert(0, os.path.dirname(os.path.abspath(__file__)))
import vbuild
rf = json.load(open(sys.argv[1]))
race = rf.get("case", {}).get("property") == "C34"
b, binp, _ = vbuild.ensure_build(race=race)
env = dict(os.environ)
env.update({"VERIF_MODE": "replay", "VERIF_REPLAY": os.path.abspath(sys.argv[1]), "GOMAXPROCS": "1", "GODEBUG": "asyncpreemptoff=1,randautoseed=0,randseednop=0"})
if race:
    env["GORACE"] = "exitcode=0 suppress_equal_stacks=0 suppress_equal_addresses=0"
out = "/var/tmp/verif-replay-%d.json" % os.getpid()
env["VERIF_OUT"] = out
subprocess.run([binp, "-test.run", "^TestSim$", "-test.timeout", "0"], env=env, stdout=subprocess.DEVNULL, stderr=subprocess.DEVNULL)
r = json.load(open(out)); os.remove(out)
print(json.dumps({"reproduced": r["reproduced"], "same_trace": r["same_trace"], "expect_sig": r["expect_sig"], "violations": r["result"].get("violations")}, indent=1))
if r["reproduced"]:
    print("VIOLATION property=%s replay=%s" % (rf["case"]["property"], os.path.abspath(sys.argv[1])))
    sys.exit(1)
sys.exit(0)
