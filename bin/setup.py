#!/usr/bin/env python3
"""setup_cmd: build the rewrite tool and the simulator binary from files on disk only (offline)."""
import os, sys
sys.path.insert(0, os.path.dirname(os.path.abspath(__file__)))
import vbuild
vbuild.ensure_tools()
b, p, info = vbuild.ensure_build()
print("simulator binary:", p)
