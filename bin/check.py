#!/usr/bin/env python3
"""check.py <property> [--tier quick|thorough] [--workers N] [--seconds S]

Decides one property by seeded deterministic simulation: builds the simulator from
/repo's current working tree, fans seeds out over OS processes (one bubble per seed,
GOMAXPROCS=1 each), re-runs a sample for determinism, replays every minimised failure
in a fresh process, applies known_findings.json and writes evidence/<id>.json.

exit 0  property held on everything explored (KNOWN-FINDING lines possible)
exit 1  after a line  VIOLATION property=<id> replay=<path>
exit 2  build failure / harness trouble / nondeterministic replay (never a violation)
"""
import collections
import hashlib
import glob
import json
import os
import shutil
import subprocess
import sys
import time

HERE = os.path.dirname(os.path.abspath(__file__))
VERIF = os.path.dirname(HERE)
sys.path.insert(0, HERE)
import vbuild  # noqa: E402
from props import PROPS, COMPONENTS  # noqa: E402


def log(*a):
    sys.stderr.write(" ".join(str(x) for x in a) + "\n")
    sys.stderr.flush()


# race build: no exit code for reports (they arrive as violations through the result
# files), and the same race is reported every time it happens (needed for shrinking)
RACE_OPTS = "exitcode=0 suppress_equal_stacks=0 suppress_equal_addresses=0"


def sweep_for(spec, tspec, hname):
    """fault-position sweeps apply to the harnesses named in sweep_only (all if absent)"""
    only = spec.get("sweep_only")
    if only and hname not in only:
        return ""
    return tspec.get("sweep", "")


def worker_env(extra):
    e = dict(os.environ)
    e.update({"GOMAXPROCS": "1", "GODEBUG": "asyncpreemptoff=1,randautoseed=0,randseednop=0", "GOTRACEBACK": "single"})
    e.update({k: str(v) for k, v in extra.items()})
    return e


def main():
    args = sys.argv[1:]
    if not args:
        print(__doc__)
        return 2
    prop = args[0]
    tier = os.environ.get("VERIF_TIER", "quick")
    workers = int(os.environ.get("VERIF_WORKERS", "16"))
    seconds = None
    i = 1
    while i < len(args):
        if args[i] == "--tier":
            tier = args[i + 1]; i += 2
        elif args[i] == "--workers":
            workers = int(args[i + 1]); i += 2
        elif args[i] == "--seconds":
            seconds = float(args[i + 1]); i += 2
        else:
            i += 1
    if prop not in PROPS:
        log("unknown property", prop)
        return 2
    spec = PROPS[prop]
    tspec = spec[tier]
    seed = int(os.environ.get("VERIF_SEED", "1"))
    t0 = time.time()
    race = bool(spec.get("race"))
    try:
        bdir, binp, binfo = vbuild.ensure_build(race=race)
    except SystemExit:
        log("build failed")
        return 2
    build_s = time.time() - t0
    if seconds is None:
        seconds = tspec["seconds"]
    runs_cap = tspec["runs"]
    work = "/var/tmp/verif-run/%s-%d" % (prop, os.getpid())
    shutil.rmtree(work, ignore_errors=True)
    os.makedirs(work)
    # (VERIF_OUT_DIR: mutation runs keep their evidence and replay files out of /verif)
    outbase = os.environ.get("VERIF_OUT_DIR", VERIF)
    rdir = os.path.join(outbase, "replays", prop)
    shutil.rmtree(rdir, ignore_errors=True)
    os.makedirs(rdir, exist_ok=True)
    deadline = int(time.time() + seconds)
    # a property may be decided in more than one simulated world: workers are dealt out
    # over the harnesses (worker w runs seeds seed*1e7 + w + k*workers in harness w mod n)
    harnesses = spec.get("harnesses") or [spec["harness"]]
    per = (runs_cap + workers - 1) // workers
    procs = []
    t_run = time.time()
    for w in range(workers):
        env = worker_env({
            "VERIF_MODE": "run", "VERIF_HARNESS": harnesses[w % len(harnesses)], "VERIF_PROPERTY": prop, "VERIF_TIER": tier,
            "VERIF_SEED0": seed * 10_000_000 + w, "VERIF_STRIDE": workers, "VERIF_N": per,
            "VERIF_OUT": os.path.join(work, "w%d.jsonl" % w), "VERIF_REPLAY_DIR": rdir, "VERIF_DEADLINE": deadline,
            "VERIF_SWEEP": sweep_for(spec, tspec, harnesses[w % len(harnesses)]),
        })
        if race:
            env["GORACE"] = RACE_OPTS
        lf = open(os.path.join(work, "w%d.log" % w), "w")
        p = subprocess.Popen([binp, "-test.run", "^TestSim$", "-test.timeout", "0"], env=env, stdout=lf, stderr=subprocess.STDOUT, cwd=work)
        procs.append((p, lf))
    trouble = []
    hard = seconds * 4 + 120
    for w, (p, lf) in enumerate(procs):
        try:
            rc = p.wait(timeout=max(5, hard - (time.time() - t_run)))
        except subprocess.TimeoutExpired:
            p.kill()
            rc = -9
            trouble.append("worker %d exceeded the watchdog (%.0fs)" % (w, hard))
        lf.close()
        if rc == 1 and race and "race detected during execution of test" in open(os.path.join(work, "w%d.log" % w)).read():
            # the testing package fails a test during which the detector reported anything,
            # including the harness' own unsynchronised bookkeeping; reports on core code
            # are in the result files
            rc = 0
        if rc != 0:
            tail = open(os.path.join(work, "w%d.log" % w)).read()[-3000:]
            # race build: fd 2 of a run is redirected to a scratch file, a fatal runtime
            # error of the process ends up there
            for cf in glob.glob("/dev/shm/verif-race-%d-*.txt" % p.pid) + glob.glob("/tmp/verif-race-%d-*.txt" % p.pid):
                try:
                    txt = open(cf).read()
                    i = txt.find("fatal error")
                    tail += "\n[stderr of the dying run]\n" + (txt[i:i + 2500] if i >= 0 else txt[-2500:])
                    os.remove(cf)
                except OSError:
                    pass
            trouble.append("worker %d exited with %s:\n%s" % (w, rc, tail))
    run_s = time.time() - t_run
    results = []
    for w in range(workers):
        fp = os.path.join(work, "w%d.jsonl" % w)
        if not os.path.exists(fp):
            continue
        for line in open(fp):
            try:
                results.append(json.loads(line))
            except Exception:
                trouble.append("unparsable result line in worker %d" % w)
    for r in results:
        if r.get("harness_error"):
            trouble.append("seed %s: %s" % (r["seed"], r["harness_error"][:2000]))
    # ---- determinism re-runs (fresh process, same seeds) ----
    det_checked = det_bad = 0
    # (a full fault sweep re-runs a history once per fault position: fewer seeds then)
    nsample = 4 if str(tspec.get("sweep", "")).endswith(":all") else 24
    sample = [r for r in results if not r.get("violations")][:: max(1, len(results) // nsample)][:nsample]
    if sample and not trouble:
        rc = 0
        again = {}
        for hi, hname in enumerate(harnesses):
            mine = [r for r in sample if ((r["seed"] - seed * 10_000_000) % workers) % len(harnesses) == hi]
            if not mine:
                continue
            seeds = ",".join(str(r["seed"]) for r in mine)
            detf = os.path.join(work, "det%d.jsonl" % hi)
            env = worker_env({"VERIF_MODE": "run", "VERIF_HARNESS": hname, "VERIF_PROPERTY": prop, "VERIF_TIER": tier,
                              "VERIF_SEED_LIST": seeds, "VERIF_OUT": detf, "VERIF_REPLAY_DIR": work,
                              "VERIF_SWEEP": sweep_for(spec, tspec, hname), "VERIF_MAX_VIOL": 0})
            if race:
                env["GORACE"] = RACE_OPTS
            rc1 = subprocess.run([binp, "-test.run", "^TestSim$", "-test.timeout", "0"], env=env, stdout=subprocess.DEVNULL, stderr=subprocess.DEVNULL, cwd=work).returncode
            rc = rc or rc1
            if os.path.exists(detf):
                for line in open(detf):
                    d = json.loads(line)
                    again.setdefault(d["seed"], []).append(d["trace_hash"])
        first = collections.defaultdict(list)
        for r in results:
            first[r["seed"]].append(r["trace_hash"])
        for s, hs in again.items():
            det_checked += 1
            if first.get(s) != hs:
                det_bad += 1
        if rc != 0 and not (race and rc == 1 and len(again) == len(sample)):
            trouble.append("determinism re-run process failed (%s)" % rc)
        # A rare residual divergence (Go's random choice among ready select cases, time-based
        # preemption in a slow segment) is reported in the evidence but does not condemn the
        # batch: a divergent run is still a legal execution and every reported violation has
        # to reproduce from its own replay file anyway. A systematic divergence is trouble.
        # (On a heavily loaded machine blocking file-system calls of the real bbolt log take
        # long enough for the runtime to hand the processor to another goroutine, which shows
        # as a burst of divergences; only a majority of divergent re-runs counts as trouble.)
        if det_bad > max(2, det_checked // 2) and not spec.get("nondeterministic_ok"):
            trouble.append("%d of %d re-run seeds produced a different trace hash" % (det_bad, det_checked))
    # ---- violations: replay each minimised file in a fresh process ----
    kf = json.load(open(os.path.join(VERIF, "known_findings.json")))
    lines = []
    nviol = 0
    known_hits = collections.Counter()
    seen_sig = set()
    for r in results:
        for v in r.get("violations", []):
            sg = "%s|%s|%s" % (v["property"], v["rule"], v["sig"])
            if sg in seen_sig:
                continue
            rp = r.get("replay")
            if not rp:
                continue
            rf = json.load(open(rp))
            if rf.get("expect_sig") != sg:
                continue
            seen_sig.add(sg)
            outp = os.path.join(work, "replay-out.json")
            env = worker_env({"VERIF_MODE": "replay", "VERIF_REPLAY": rp, "VERIF_OUT": outp})
            if race:
                env["GORACE"] = RACE_OPTS
            ok = same = False
            for _attempt in range(3):
                subprocess.run([binp, "-test.run", "^TestSim$", "-test.timeout", "0"], env=env, stdout=subprocess.DEVNULL, stderr=subprocess.DEVNULL, cwd=work)
                try:
                    ro = json.load(open(outp))
                    ok = ro.get("reproduced")
                    same = ro.get("same_trace")
                except Exception:
                    ok = same = False
                if ok:
                    break
            if not ok:
                # The minimised case was found and shrunk inside a worker process that had run
                # other cases before. If the code under test keeps state across runs (a process-
                # wide counter, a cache), the shrunk case may depend on that state. Try the
                # unminimised cases that reported this violation, each in a fresh process, most
                # operations first; one that fails the same way on its own is the replay file.
                cands = [x for x in results if x.get("case") and any("%s|%s|%s" % (y["property"], y["rule"], y["sig"]) == sg for y in x.get("violations", []))]
                cands.sort(key=lambda x: -len(x["case"].get("ops") or []))
                for x in cands[:40]:
                    rp2 = os.path.join(os.path.dirname(rp), "%s-%s-%s-unminimised.json" % (prop, x["seed"], hashlib.sha1(sg.encode()).hexdigest()[:12]))
                    json.dump({"case": x["case"], "expect_sig": sg, "expect_trace_hash": x.get("trace_hash"), "original_seed": x["seed"],
                               "violations": [y for y in x["violations"] if "%s|%s|%s" % (y["property"], y["rule"], y["sig"]) == sg],
                               "note": "not minimised: the minimised case did not fail in a fresh process (the violation depends on state the process keeps across cases)"}, open(rp2, "w"), indent=1)
                    env2 = dict(env, VERIF_REPLAY=rp2)
                    subprocess.run([binp, "-test.run", "^TestSim$", "-test.timeout", "0"], env=env2, stdout=subprocess.DEVNULL, stderr=subprocess.DEVNULL, cwd=work)
                    try:
                        ro = json.load(open(outp))
                    except Exception:
                        ro = {}
                    if ro.get("reproduced"):
                        ok, same, rp, r = True, ro.get("same_trace"), rp2, x
                        v = [y for y in x["violations"] if "%s|%s|%s" % (y["property"], y["rule"], y["sig"]) == sg][0]
                        break
                    os.unlink(rp2)
            if not ok:
                trouble.append("replay of %s did not reproduce %s" % (rp, sg))
                continue
            match = None
            for f in kf.get("findings", []):
                m = f["match"]
                if m["property"] == v["property"] and m["rule"] == v["rule"] and m.get("sig", v["sig"]) == v["sig"] and all(s in v["detail"] for s in m.get("detail_contains", [])):
                    match = f
                    break
            if match:
                known_hits[match["id"]] += 1
                lines.append("KNOWN-FINDING: property=%s %s" % (prop, match["what"]))
            else:
                nviol += 1
                lines.append("VIOLATION property=%s replay=%s" % (prop, rp))
                lines.append("  rule=%s sig=%s seed=%s trace_replayed_identically=%s" % (v["rule"], v["sig"], r["seed"], same))
                lines.append("  " + v["detail"][:1500].replace("\n", "\n  "))
    # ---- evidence ----
    n = len(results)
    nontriv = [r for r in results if r.get("nontrivial")]
    inter = set(r["trace_hash"] for r in nontriv)
    states = set()
    probes = collections.Counter()
    fired = collections.Counter()
    seam = collections.Counter()
    vms = steps = 0
    for r in results:
        for h in r.get("state_hashes") or []:
            states.add(h)
        for k, c in (r.get("probes") or {}).items():
            probes[k] += c
        st = r.get("stats") or {}
        fired["err"] += st.get("err_fired", 0)
        fired["crash"] += st.get("crash_fired", 0)
        fired["stall"] += st.get("stall_fired", 0)
        for k, c in (st.get("seam_calls") or {}).items():
            seam[k] += c
        vms += st.get("virtual_ms", 0)
        steps += st.get("steps", 0)
    for k in spec.get("fault_probes", []):
        fired[k] = probes.get(k, 0)
    samples = [r["case"] for r in results if r.get("case")][:3]
    zero = [p for p in spec.get("expect_probes", []) if probes.get(p, 0) == 0]
    wall = time.time() - t0
    ev = {
        "property_id": prop, "tier": tier, "seed": seed, "level": spec["level"],
        "coverage": {
            "evaluations": n,
            "distinct_nontrivial": len(inter),
            "rule": spec["rule"],
            "samples": samples or [{"note": "no case recorded"}],
            "distinct_states": len(states),
            "scheduler_steps": steps,
            "simulated_seconds": round(vms / 1000.0, 1),
            "runs_per_hour": int(n / max(run_s, 1e-3) * 3600),
            "faults_fired": dict(fired),
            "seam_calls": dict(seam),
            "probes": dict(probes),
            "probes_expected_but_zero": zero,
            "determinism_reruns": det_checked, "determinism_mismatches": det_bad,
            "known_findings_hit": dict(known_hits),
            "components": {"real": sorted({x for h in harnesses for x in COMPONENTS.get(h, {}).get("real", [])}),
                           "stub": sorted({x for h in harnesses for x in COMPONENTS.get(h, {}).get("stub", [])})},
            "maporder": (binfo or {}).get("maporder"),
            "workers": workers, "build_s": round(build_s, 1), "run_s": round(run_s, 1),
            "harness": "+".join(harnesses),
            # only where the seed index enumerates a finite case space completely (C17)
            "exhaustive": bool(spec.get("exhaustive_if_runs") and n >= spec["exhaustive_if_runs"] and not trouble),
        },
        "assumptions": spec.get("assumptions", []),
        "wall_s": round(wall, 1),
        "violations": nviol,
    }
    if spec["level"] == "other":
        ev["coverage"]["explanation"] = spec.get("explanation", spec["rule"])
    os.makedirs(os.path.join(outbase, "evidence"), exist_ok=True)
    json.dump(ev, open(os.path.join(outbase, "evidence", prop + ".json"), "w"), indent=1)
    if trouble and os.environ.get("VERIF_KEEP_WORK"):
        sys.stderr.write("work directory kept: %s\n" % work)
    else:
        shutil.rmtree(work, ignore_errors=True)
    for ln in lines:
        print(ln)
    print("%s %s: runs=%d nontrivial_distinct=%d states=%d sim_s=%.0f faults=%s det=%d/%d wall=%.0fs" % (
        prop, tier, n, len(inter), len(states), vms / 1000.0, dict(fired), det_checked - det_bad, det_checked, wall))
    if zero:
        print("note: probes that stayed at zero:", zero)
    if trouble:
        for tmsg in trouble[:10]:
            log("HARNESS TROUBLE:", tmsg)
        # a violation that reproduced from its replay file in a fresh process stands on its
        # own feet whatever else went wrong in the batch; without one, trouble is exit 2
        if not nviol:
            return 2
    if n == 0:
        log("no runs completed")
        return 2
    if nviol:
        return 1
    if not os.listdir(rdir):
        shutil.rmtree(rdir, ignore_errors=True)
    return 0


if __name__ == "__main__":
    sys.exit(main())
