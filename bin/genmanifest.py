#!/usr/bin/env python3
"""Writes /verif/MANIFEST.json from the property table (bin/props.py) and the fixed not-applicable list."""
import json, os, subprocess, sys
HERE = os.path.dirname(os.path.abspath(__file__))
VERIF = os.path.dirname(HERE)
sys.path.insert(0, HERE)
from props import PROPS, MANIFEST_TEXT, NOT_APPLICABLE

try:
    commits = subprocess.run(["git", "-C", "/repo", "log", "--format=%H %s"], stdout=subprocess.PIPE).stdout.decode().splitlines()
    hooks = [c.split()[0] for c in commits if "verif hook" in c]
except Exception:
    hooks = []
checks = []
for pid in sorted(PROPS):
    s = PROPS[pid]
    t = MANIFEST_TEXT[pid]
    checks.append({
        "property_id": pid,
        "quick_cmd": "python3 bin/check.py %s --tier quick" % pid,
        "thorough_cmd": "python3 bin/check.py %s --tier thorough" % pid,
        "evidence_file": "/verif/evidence/%s.json" % pid,
        "replay_cmd_template": "python3 bin/replay.py {path}",
        "engine": "sim-" + s["harness"],
        "level_claimed": {"category": s["level"], "text": t["text"], "design_ref": t.get("design_ref", "DESIGN.md §5 " + pid)},
        "level_note": t["note"],
        "technique": t.get("technique", "deterministic simulation with fault injection (seeded schedules/faults, invariant + history oracles)"),
    })
m = {
    "version": 1,
    "setup_cmd": "python3 bin/setup.py",
    "hooks": {
        "guard": "verif (Go build tag)",
        "enable": "go test -c -tags verif (bin/vbuild.py builds a rewritten scratch copy of /repo's working tree with the tag on)",
        "baseline_off_cmd": "bash /verif/bin/baseline.sh",
        "source_commits": hooks,
        "add_only": True,
    },
    "engines": [],
    "checks": checks,
    "notes": "All checks are deterministic simulations (testing/synctest bubble + seeded scheduler over seams owned by /verif/sim). See DESIGN.md.",
    "not_applicable": NOT_APPLICABLE,
}
eng = {}
for pid, s in PROPS.items():
    eng.setdefault(s["harness"], []).append(pid)
for h, ps in sorted(eng.items()):
    m["engines"].append({"name": "sim-" + h, "path": "/verif/sim/harness", "serves_properties": sorted(ps), "kind_free_text": "deterministic simulation harness '%s' (Go test binary, one synctest bubble per seed)" % h})
claimed = set(PROPS)
na = set(x["property_id"] for x in NOT_APPLICABLE)
allp = [json.loads(l)["id"] for l in open(os.path.join(VERIF, "properties.jsonl"))]
missing = [p for p in allp if p not in claimed and p not in na]
for p in missing:
    m["not_applicable"].append({"property_id": p, "reason": "not claimed yet: harness under construction (see DESIGN.md section 8); no check is registered, so nothing is asserted about it"})
m["not_applicable"] = [x for x in m["not_applicable"] if x["property_id"] not in claimed]
json.dump(m, open(os.path.join(VERIF, "MANIFEST.json"), "w"), indent=1)
print("claimed", len(claimed), "not_applicable", len(m["not_applicable"]))
